"""C06 — compiled bytecode computes what the interpreter computed.
(1) MechBytecode (implementation-shaped compile / load / run / step model; Faithful and StepFaithful checked by TLC)
    enumerates programs; the REAL decoded instruction stream, constants, run result and re-evaluation results are
    compared with the model's.
(2) Black-box conformance with the Faithful/StepFaithful laws for programs over every other construct (operators of
    all kinds, indexing, assignment, ranges, sets, tables, strings, the repository's bytecode and interpreter tests)."""
import re, random, collections, json
from fractions import Fraction as F
import tlc, execpool, absval, render
from core import log
from areas.c09 import repo_programs

PROP = "C06"
OPTXT = {"add": "+", "sub": "-", "mul": "*"}
AOP = {"addassign": "+=", "subassign": "-=", "mulassign": "*="}

def operand(o): return str(o["v"]) if o["k"] == "lit" else o["n"]
def expr(e):
    if e["op"] == "": return operand(e["l"])
    if e["op"] == "neg": return "-" + operand(e["l"])
    return f"{operand(e['l'])} {OPTXT[e['op']]} {operand(e['r'])}"
def stmt(st):
    if st["s"] == "def": return f"{'~' if st['mu'] else ''}{st['n']} := {expr(st['e'])}"
    if st["s"] == "asg": return f"{st['n']} = {expr(st['e'])}"
    if st["s"] == "opa": return f"{st['n']} {AOP[st['aop']]} {expr(st['e'])}"
    return expr(st["e"])

INS = re.compile(r"^(\w+) \{ (.*) \}$")
def parse_instr(s):
    m = INS.match(s)
    if not m: return ("?", None, None, ())
    kind = m.group(1)
    fields = dict((k.strip(), v.strip()) for k, v in (kv.split(":", 1) for kv in re.split(r",\s*(?![^\[]*\])", m.group(2))))
    if kind == "ConstLoad": return ("const", None, int(fields["dst"]), (int(fields["const_id"]),))
    if kind == "UnOp": return ("op", fields["fxn_id"], int(fields["dst"]), (int(fields["src"]),))
    if kind == "BinOp": return ("op", fields["fxn_id"], int(fields["dst"]), (int(fields["lhs"]), int(fields["rhs"])))
    if kind == "TernOp": return ("op", fields["fxn_id"], int(fields["dst"]), (int(fields["a"]), int(fields["b"]), int(fields["c"])))
    if kind == "VarArg": return ("op", fields["fxn_id"], int(fields["dst"]), tuple(int(x) for x in fields["args"].strip("[]").split(",") if x.strip()))
    return (kind, fields.get("fxn_id"), int(fields.get("dst", -1)), ())

def mval(v):
    if v["t"] == "num": return ('num', 'f64', F(v["n"]))
    if v["t"] == "str": return ('str', v["s"])
    return ('bool', v["b"])

def nz(v):
    """the model's integers have no negative zero"""
    if v and v[0] == 'flt' and v[2] == '-0': return ('num', v[1], F(0))
    return v

def val(o):
    return nz(absval.absval(o["v"])) if o and o.get("r") == "ok" else None

def unescape(s):
    return s.replace('\\n', '\n').replace('\\"', '"').replace('\\\\', '\\')

def famsig(fam, st):
    import hashlib
    f0 = fam.split("/")[0]
    if f0 in ("interpreter-test", "bytecode-test"):
        return f0 + ":" + hashlib.sha1(" ; ".join(st).encode("utf8")).hexdigest()[:8]
    if f0.startswith("zoo-") or f0.startswith("scale-"):
        return f0
    if f0.startswith("const-"):
        k = fam.split("/")[1]
        return f0 + "/" + (k if k in ("f64", "r64", "c64", "bool", "string", "ustring") else "typed-literal-kinds")
    if "/" in fam:
        return f0 + ("/f64" if fam.endswith("/f64") else ("/r64" if fam.endswith("/r64") else "/typed-literal-kinds"))
    return fam

def model_family(rep, tier, seed):
    cfg = "MC_C06_quick.cfg" if tier == "quick" else "MC_C06_thorough.cfg"
    t = tlc.run("MC_C06", cfg, workers=16, timeout=3000)
    if t.violations or not t.ok:
        rep.fail("C06/model", "TLC reported a violation on MechBytecode: " + "; ".join(t.errors[:3]), {"log": t.log})
    cases = t.cases
    cases.sort(key=lambda c: json.dumps(c["prog"], sort_keys=True))
    rnd = random.Random(seed)
    if len(cases) > 30000: cases = rnd.sample(cases, 30000)
    log(f"[C06] TLC: {t.generated} states, {len(cases)} programs in {t.wall:.1f}s")
    reqs = [{"id": i, "mode": "bytecode", "stmts": [stmt(s) for s in cs["prog"]]} for i, cs in enumerate(cases)]
    outs = execpool.run_requests(reqs, nworkers=16, timeout=25, mem_limit_mb=4096)
    fx = collections.defaultdict(set); tally = collections.Counter()
    for cs, req, (resp, oc) in zip(cases, reqs, outs):
        kinds = "+".join(sorted({s["s"] for s in cs["prog"]}))
        replay = {"stmts": req["stmts"], "model": {"code": cs["code"], "consts": cs["consts"], "result": cs["result"], "stepped": cs["stepped"]}}
        if oc != "ok" or resp is None:
            rep.fail(f"C06/host-{oc}/{kinds}", f"{req['stmts']}: process {oc} during interpret/compile/load/run", replay); continue
        if resp.get("interp", {}).get("r") != "ok":
            rep.fail(f"C06/interpret-rejects/{kinds}", f"{req['stmts']}: interpreter rejects a valid program: {resp.get('interp')}", replay); continue
        if resp.get("compile", {}).get("r") != "ok":
            rep.fail(f"C06/compile-{resp['compile'].get('r')}/{kinds}", f"{req['stmts']}: compile {resp.get('compile')}", replay); continue
        ld = resp.get("load", {})
        if ld.get("r") != "ok":
            rep.fail(f"C06/load-{ld.get('r')}/{kinds}", f"{req['stmts']}: emitted bytecode does not load: {ld}", replay); continue
        real = [parse_instr(s) for s in ld["instrs"]]
        model = [(c["k"], c["op"], c["dst"], tuple(c["srcs"])) for c in cs["code"]]
        shape_ok = len(real) == len(model) and all(r[0] == m[0] and r[2] == m[2] and r[3] == m[3] for r, m in zip(real, model))
        if not shape_ok:
            # informational: register numbering / instruction order are the compiler's business; the property is about results
            tally["instruction_stream_differs_from_model"] += 1
        else:
            for r, mm in zip(real, model):
                if r[0] == "op": fx[mm[1]].add(r[1])
            cv = ld.get("consts", {})
            if cv.get("r") != "ok":
                rep.fail(f"C06/constants/{kinds}", f"{req['stmts']}: the constants of the emitted program do not decode: {cv}", replay); continue
            if [nz(absval.absval(c)) for c in cv["v"]] != [mval(c) for c in cs["consts"]]:
                tally["constants_differ_from_model"] += 1
        if not (ld.get("reenc", {}).get("r") == "ok" and ld["reenc"].get("eq")):
            tally["reencode_differs(informational: C07's subject)"] += 1
        want = mval(cs["result"])
        if resp.get("run", {}).get("r") == "err":
            rep.fail(f"C06/must-run/run-error/{kinds}", f"{req['stmts']}: fresh run fails with {resp['run'].get('class')}", replay); continue
        if val(resp.get("run")) != want:
            rep.fail(f"C06/run-result/{kinds}", f"{req['stmts']}: fresh run gives {resp.get('run')}, interpreter/model {absval.short(want)}", replay); continue
        stepped = mval(cs["stepped"])
        so, sl = val(resp.get("step_orig")), val(resp.get("step_loaded"))
        if so != stepped or sl != stepped:
            rep.fail(f"C06/step/{kinds}", f"{req['stmts']}: re-evaluation gives original {so and absval.short(so)}, loaded {sl and absval.short(sl)}, model {absval.short(stepped)}", replay); continue
        tally["exact"] += 1
    # ---- compile is a function of the interpreter's state: calling Interpreter::compile() after every statement as well (and so
    #      twice at the end) must not change what the final image does (REPL / watch mode recompile the same interpreter)
    plain = {i: resp for i, (resp, oc) in enumerate(outs) if oc == "ok" and resp}
    idx = [i for i, cs in enumerate(cases) if i in plain and plain[i].get("compile", {}).get("r") == "ok"]
    if len(idx) > 4000: idx = sorted(rnd.sample(idx, 4000))
    reqs2 = [{"id": k, "mode": "bytecode", "stmts": reqs[i]["stmts"], "precompile": list(range(1, len(reqs[i]["stmts"]) + 1))} for k, i in enumerate(idx)]
    outs2 = execpool.run_requests(reqs2, nworkers=16, timeout=25, mem_limit_mb=4096)
    def outcome(r):
        return tuple((k, (r.get(k) or {}).get("r"), json.dumps((r.get(k) or {}).get("v"), sort_keys=True)) for k in ("compile", "run", "step_orig", "step_loaded")) + \
               (("load", (r.get("load") or {}).get("r")), ("consts", ((r.get("load") or {}).get("consts") or {}).get("r")))
    for i, req2, (resp2, oc2) in zip(idx, reqs2, outs2):
        kinds = "+".join(sorted({s_["s"] for s_ in cases[i]["prog"]}))
        replay = {"stmts": req2["stmts"], "precompile": req2["precompile"]}
        if oc2 != "ok" or resp2 is None:
            rep.fail(f"C06/recompile/host-{oc2}/{kinds}", f"{req2['stmts']} with a compile() after every statement: process {oc2}", replay); continue
        if outcome(resp2) != outcome(plain[i]):
            a, b = outcome(plain[i]), outcome(resp2)
            d = next((x, y) for x, y in zip(a, b) if x != y)
            rep.fail(f"C06/recompile/{kinds}", f"{req2['stmts']}: compiling after every statement changes what the final image does: {d[0]} (single compile) vs {d[1]}", replay); continue
        tally["recompile_same"] += 1
    rep.cov["recompile_programs"] = len(idx); rep.cov["recompile_same_as_single_compile"] = tally["recompile_same"]
    ids = collections.defaultdict(set)
    for op, s in fx.items():
        if len(s) != 1: rep.fail("C06/function-id/not-functional", f"operator {op} compiled to several function ids {s}", {"op": op})
        for i in s: ids[i].add(op)
    for i, s in ids.items():
        if len(s) != 1: rep.fail("C06/function-id/not-injective", f"function id {i} stands for several operators {s}", {"ops": sorted(s)})
    rep.cov["model_instruction_stream_differs(informational)"] = tally["instruction_stream_differs_from_model"]
    rep.cov["model_constants_differ(informational)"] = tally["constants_differ_from_model"]
    rep.cov["model_reencode_differs(informational: C07 subject)"] = tally["reencode_differs(informational: C07's subject)"]
    return t, len(cases), tally["exact"]

MUSTRUN = re.compile(r'^[\s\w\d\.\+\-\*/%\^<>=!&|~\[\];:,()"\']*$')

def blackbox_programs(tier, seed):
    """programs over the other constructs (rendered by the other areas' renderers and the repository's tests)"""
    rnd = random.Random(seed + 99)
    progs = []
    src = open("/repo/tests/bytecode.rs", encoding="utf8").read()
    for m in re.finditer(r'bytecode_test!\(\s*\w+\s*,\s*(r#"(.*?)"#|"((?:[^"\\]|\\.)*)")', src, re.S):
        s = m.group(2) if m.group(2) is not None else unescape(m.group(3))
        progs.append(("bytecode-test", [s]))
    ip = repo_programs(); rnd.shuffle(ip)
    for p in ip:
        progs.append(("interpreter-test", [p]))
    # every binary operator x kind with distinct non-commutative operands, scalar and matrix forms
    ops = ["+", "-", "*", "/", "<", ">", "<=", ">=", "==", "!="]
    for kind in ["f64", "u8", "u16", "u32", "u64", "u128", "i8", "i16", "i32", "i64", "i128", "f32", "r64"]:
        a = render.scalar_lit(('num', kind, F(12))); b = render.scalar_lit(('num', kind, F(4)))
        for op in ops:
            progs.append((f"scalar-op/{kind}", [f"x := {a}", f"y := {b}", f"x {op} y"]))
        progs.append((f"matrix-op/{kind}", [render.define_matrix("m", kind, 1, 3, [('num', kind, F(v)) for v in (12, 8, 20)]), f"z := {b}", "m - z", ]))
        progs.append((f"index/{kind}", [render.define_matrix("m", kind, 2, 2, [('num', kind, F(v)) for v in (1, 2, 3, 4)]), "m[2,1]"]))
        progs.append((f"index-assign/{kind}", [render.define_matrix("m", kind, 1, 3, [('num', kind, F(v)) for v in (1, 2, 3)], mutable=True), f"m[2] = {a}"]))
        progs.append((f"range/{kind}", [f"{render.scalar_lit(('num', kind, F(1)))}..{render.scalar_lit(('num', kind, F(4)))}"]))
        progs.append((f"opassign/{kind}", [f"~q := {a}", f"q -= {b}"]))
    progs += [("logic", ["a := true", "b := false", "a && b"]), ("logic", ["a := true", "!a"]), ("string", ['s := "ab"', 't := "cd"', "s == t"]),
              ("string", ['s := "ab"', 's']), ("set", ["s := {1, 2, 3}", "t := {3, 4}", "s ∪ t"]), ("set", ["{1, 2} ⊆ {1, 2, 3}"]),
              ("table", ["t := | x<f64> y<f64> | 1 2 | 3 4 |", "t.x"]), ("tuple", ['t := (1, "a")', "t.1"]), ("record", ["r := {x: 1, y: 2}", "r.x"]),
              ("stdlib", ["math/sin(0)"]), ("stdlib", ["stats/sum/row([1 2; 3 4])"]), ("matrix", ["[1 2; 3 4] ** [1; 1]"]), ("transpose", ["[1 2; 3 4]'"]),
              ("slice", ["x := [1 2 3 4]", "x[2..4]"]), ("mask", ["x := [1 2 3 4]", "x[x > 2]"]), ("neg", ["x := 5", "-x"]),
              ("convert", ["x<u8> := 200", "y<u16> := x"]), ("atom", [":a == :a"]), ("rational", ["1/2 + 1/3"]), ("empty", ["_"])]
    # scale: the NUMBER of names, constants, instructions and statements of a program (counts and section lengths of the file are
    # functions of these; a reader that mis-sizes an entry or a count field goes wrong only beyond some number)
    Ns = list(range(1, 17)) + [24, 31, 32, 33, 48, 63, 64, 65, 100, 127, 128, 129] + ([200, 255, 256, 257, 300] if tier != "quick" else [])
    for N in Ns:
        progs.append((f"scale-names/{N}", [f"v{i} := {i}" for i in range(1, N + 1)] + [f"v1 + v{N}"]))
        progs.append((f"scale-mutnames/{N}", [f"~w{i} := {i}" for i in range(1, N + 1)] + [f"w{N} += w1", f"w{N}"]))
    for N in [2, 3, 4, 8, 15, 16, 17, 32, 64, 65, 128] + ([255, 256, 257] if tier != "quick" else []):
        progs.append((f"scale-consts/{N}", ["m := [" + " ".join(str(i) + ".5" for i in range(1, N + 1)) + "]", f"m[{N}]"]))
        progs.append((f"scale-chain/{N}", ["x := " + " + ".join(str(i) for i in range(1, N + 1))]))
        progs.append((f"scale-stmts/{N}", ["~q := 0"] + ["q += 1"] * N + ["q"]))
    return progs

def const_lit(kind, fields):
    if kind == "c64": return f"{fields[0]}+{fields[1]}i"
    if kind == "r64": return f"{fields[0]}/{fields[1]}"
    if kind == "bool": return "true" if (fields[0] // 10) % 2 == 1 else "false"
    # RAGGED strings: the elements of one container differ in their byte length (a decoder that assumes one width per container,
    # or counts characters for bytes, is wrong only then)
    if kind == "ustring": return f'"h\u00e9{fields[0]}' + "\u00f6" * (fields[0] % 3) + 'w"'
    if kind == "string": return f'"s{fields[0]}' + "x" * ((fields[0] * 2) % 5) + '"'
    if kind == "f64": return f"{fields[0]}.5"
    return render.scalar_lit(('num', kind, F(fields[0])))

def const_programs(rep):
    """MechConst universe: every element kind in every container, every field of every element different"""
    t = tlc.run("MC_C06k", "MC_C06k.cfg", workers=4, timeout=600)
    if t.violations or not t.ok:
        rep.fail("C06/model", "TLC reported a violation on MechConst: " + "; ".join(t.errors[:3]), {"log": t.log})
    progs = []
    for cs in sorted(t.cases, key=lambda c: (c["cont"], c["kind"])):
        k, ct = cs["kind"], cs["cont"]
        L = [const_lit(k, e) for e in cs["elems"]]
        kk = {"ustring": "string"}.get(k, k)
        text = {"scalar": lambda: L[0], "row": lambda: f"[{L[0]} {L[1]} {L[2]}]", "col": lambda: f"[{L[0]}; {L[1]}; {L[2]}]",
                "mat": lambda: f"[{L[0]} {L[1]}; {L[2]} {L[3]}]", "set": lambda: "{" + ", ".join(L) + "}", "tuple": lambda: f"({L[0]}, {L[1]})",
                "record": lambda: "{a: " + L[0] + ", b: " + L[1] + "}", "table": lambda: f"| a<{kk}> b<{kk}> | {L[0]} {L[1]} | {L[2]} {L[3]} |",
                "map": lambda: '{"k1": ' + L[0] + ', "k2": ' + L[1] + "}"}[ct]()
        progs.append((f"const-{ct}/{k}", [f"x := {text}"]))
        progs.append((f"const-{ct}/{k}", [f"x := {text}", "x"]))
    return progs, t

def blackbox_family(rep, tier, seed):
    progs = blackbox_programs(tier, seed)
    cprogs, tk = const_programs(rep)
    rep.cov["const_universe_cases"] = len(cprogs) // 2
    progs += cprogs
    # the kernel zoo of C19 (function family x storage form x kind), for the kinds whose literals need no conversion step
    from areas.c19g import zoo_corpus
    zoo = [(o, t) for o, t in zoo_corpus(rep) if o.split("/")[-1] in ("f64", "bool", "string")]
    rep.cov["zoo_programs"] = len(zoo)
    progs += [("zoo-" + o.split(":")[1].split("/")[0] + "/" + o.split("/")[-1], t.split("\n") if "=>" not in t else [t]) for o, t in zoo]
    reqs = [{"id": i, "mode": "bytecode", "stmts": st} for i, (_, st) in enumerate(progs)]
    outs = execpool.run_requests(reqs, nworkers=16, timeout=25, mem_limit_mb=4096)
    tally = collections.Counter()
    for (fam, st), req, (resp, oc) in zip(progs, reqs, outs):
        replay = {"stmts": st, "family": fam}
        fam0 = fam
        fam = famsig(fam, st)
        if oc == "abort":
            # memory-unsafe kernels make the crash stage vary between runs (panic in step vs abort of the process): one signature
            rep.fail(f"C06/step-panics-or-host-abort/{fam}", f"{st}: the host process aborted while compiling/loading/running/re-evaluating", replay); continue
        if oc != "ok" or resp is None:
            rep.fail(f"C06/host-{oc}/{fam}", f"{st}: process {oc} while compiling/loading/running (the host must never abort)", replay); continue
        if resp.get("interp", {}).get("r") != "ok":
            tally["not_interpretable(not judged)"] += 1; continue
        tally["interpreted"] += 1
        comp = resp.get("compile", {})
        if comp.get("r") == "panic":
            rep.fail(f"C06/compile-panics/{fam}", f"{st}: compile panics: {comp.get('msg')}", replay); continue
        # (zoo programs are judged on faithfulness and on panics only: large parts of the stdlib are not registered for
        #  loading yet, which the must-run families above already record)
        must = fam0.split("/")[0] in ("const-scalar", "const-row", "const-col", "const-mat", "scalar-op", "matrix-op", "index", "index-assign", "range", "opassign", "logic", "string", "slice", "mask", "neg", "bytecode-test", "scale-names", "scale-mutnames", "scale-consts", "scale-chain", "scale-stmts")
        if comp.get("r") != "ok":
            if must: rep.fail(f"C06/must-run/compile-error/{fam}", f"{st}: compile error {comp.get('class')} for a program of the must-run class", replay)
            else: tally["compile_error(allowed)"] += 1
            continue
        ld = resp.get("load", {})
        if ld.get("r") != "ok":
            rep.fail(f"C06/load-{ld.get('r')}/{fam}", f"{st}: emitted bytecode does not load: {ld}", replay); continue
        if ld.get("reenc", {}).get("r") != "ok" or not ld["reenc"].get("eq"):
            tally["reencode_differs(informational: C07's subject)"] += 1
        run = resp.get("run", {})
        if run.get("r") == "panic":
            rep.fail(f"C06/run-panics/{fam}", f"{st}: run_program panics: {run.get('msg')}", replay); continue
        if run.get("r") != "ok":
            if must: rep.fail(f"C06/must-run/run-error/{fam}", f"{st}: fresh run fails with {run.get('class')} for a program of the must-run class", replay)
            else: tally["run_error(allowed)"] += 1
            continue
        if val(run) != val(resp["interp"]):
            rep.fail(f"C06/run-result/{fam}", f"{st}: fresh run gives {run.get('v')}, the interpreter computed {resp['interp'].get('v')}", replay); continue
        so, sl = resp.get("step_orig", {}), resp.get("step_loaded", {})
        if so.get("r") == "ok" and sl.get("r") == "ok" and val(so) != val(sl):
            rep.fail(f"C06/step/{fam}", f"{st}: re-evaluation differs: original {so.get('v')}, loaded {sl.get('v')}", replay); continue
        if so.get("r") == "ok" and sl.get("r") == "panic":
            rep.fail(f"C06/step-panics-or-host-abort/{fam}", f"{st}: re-evaluating the loaded program panics", replay); continue
        tally["faithful"] += 1
    return len(progs), tally

def run(rep, tier, seed):
    t, nprog, nexact = model_family(rep, tier, seed)
    nbb, tally = blackbox_family(rep, tier, seed)
    log(f"[C06] model family: {nexact}/{nprog} programs matched instruction for instruction; black-box family: {dict(tally)} of {nbb}")
    rep.cov.update({"states": t.generated, "transitions": max(t.generated - 1, 1), "distinct_states": t.distinct,
                    "traces_validated_against_impl": nprog + nbb, "model_programs": nprog, "model_programs_exact": nexact,
                    "blackbox_programs": nbb, **{"blackbox_" + k: v for k, v in tally.items()}, "exhaustive": True,
                    "rule": "every valid program of <= 2 (quick) / <= 3 (thorough, sampled) statements of the MechBytecode family (define, mutable define, assign, op-assign, evaluate over literals/variables with + - * and unary minus): decoded instruction stream (registers, constant ids), constants, re-encoding, fresh run and one re-evaluation compared with the model; plus black-box Faithful/StepFaithful on programs over all operator kinds, indexing, ranges, sets, tables, strings and the repository's tests, each in a memory-limited worker"})
    rep.add_samples([{"note": "see replay files for failing programs; model programs are rendered like '~a := 7 - 2; a += 7'"}])
    rep.assumptions += ["TLC 1.8.0", "harness projection and bytecode mode (harness/src/bytecode.rs)", "Debug form of DecodedInstr"]
