"""C19, generic part (impl -> spec on the repository's own programs): MechStepGen states re-evaluation over OPAQUE values
(fixed point for programs without assignments, n single steps = one request for n, instances agree).  TLC model-checks it
(judge accepts the specification's behaviours, rejects single-point corruptions) and validates traces recorded while the real
interpreter runs every program of tests/interpreter.rs (thorough: also docs) item by item, then 3 single steps, a second
instance with one request for 3 steps, and a third instance that only re-runs the items."""
import json, os, hashlib
import tlc, execpool
from core import log

def run(rep, tier, seed):
    t = tlc.run("MC_C19g", "MC_C19g.cfg", workers=4, timeout=1800, collect=())
    if t.violations or not t.ok:
        rep.fail("C19/model-gen", "TLC reported a violation on MechStepGen: " + "; ".join(t.errors[:3]), {"log": t.log})
    rep.cov["gen_model_states"] = t.distinct; rep.cov["gen_model_transitions"] = t.generated
    from areas.c05g import corpus
    progs = corpus(tier)
    K = 3
    reqs = [{"id": i, "mode": "stepwise", "text": p, "probes": False, "steps": K} for i, (_, p) in enumerate(progs)]
    outs = execpool.run_requests(reqs, nworkers=16, timeout=300)
    os.makedirs(os.path.join(tlc.OUT, "traces"), exist_ok=True)
    path = os.path.join(tlc.OUT, "traces", f"c19g_{tier}.ndjson")
    index = []; nev = 0; nprog = 0; nsteps = 0; noassign = 0
    SENT = {"$": "-"}
    with open(path, "w") as fh:
        for i, ((origin, text), (resp, oc)) in enumerate(zip(progs, outs)):
            if oc != "ok" or resp is None or "events" not in resp:
                rep.fail(f"C19/host-{oc}", f"program {origin} {text[:80]!r}: interpreter process {oc} during interpret/step", {"text": text}); continue
            evs = resp["events"]
            if not any(e["kind"] in ("Step", "StepN", "Rerun") for e in evs): continue
            nprog += 1
            if not any(e["kind"] in ("Assign", "OpAssign") for e in evs): noassign += 1
            fh.write(json.dumps({"sess": i, "kind": "Reset", "n": 0, "ok": True, "store": SENT}) + "\n"); index.append((i, -1)); nev += 1
            for j, e in enumerate(evs):
                st = {k: v for k, v in e["store"].items() if k != "ans"}; st.update(SENT)
                if e["class"] in ("PANIC", "STOREPANIC") and e["kind"] in ("Step", "StepN"):
                    rep.fail(f"C19/step-panics/{origin.split(':')[0]}:{hashlib.sha1(text.encode()).hexdigest()[:8]}",
                             f"{origin}: re-evaluation panics ({e['kind']} {e.get('n')}) after {[x['text'] for x in evs if x['origin']=='program'][-4:]}", {"text": text})
                fh.write(json.dumps({"sess": i, "kind": e["kind"], "n": e.get("n", 0), "ok": e["ok"], "store": st}) + "\n")
                index.append((i, j)); nev += 1
                if e["kind"] in ("Step", "StepN", "Rerun"): nsteps += 1
    tt = tlc.run("Trace_C19g", "Trace_C19g.cfg", workers=1, env={"TRACE": path}, deque=True, xss="1g", xmx="4g", timeout=1800, tag=f"Trace_C19g_{tier}")
    mism = [m for m in tt.msgs if "l" in m]
    if any("unconsumed" in m for m in tt.msgs) or (tt.rc != 0 and not tt.ok):
        raise tlc.TlcError(f"Trace_C19g did not consume the trace: {tt.msgs[:2]} {tt.errors[:2]}")
    lines = open(path).read().splitlines()
    for m in mism:
        sidx, j = index[m["l"] - 1]
        ev = json.loads(lines[m["l"] - 1]); prev = json.loads(lines[m["l"] - 2])
        origin, text = progs[sidx]
        pre, post = prev["store"], ev["store"]
        changed = sorted(n for n in set(pre) | set(post) if pre.get(n) != post.get(n))
        rules = sorted(m["rules"])
        sig = "C19/gen/" + "+".join(rules) + "/" + origin.split(":")[0] + ":" + hashlib.sha1(text.encode()).hexdigest()[:8]
        rep.fail(sig, f"{origin} {text[:160]!r}: {ev['kind']} {ev['n']} breaks {rules}; names differing from the previous event: {changed}",
                 {"program": text, "event": ev["kind"], "n": ev["n"], "rules": rules, "changed": changed,
                  "pre": {n: pre.get(n, '')[17:] for n in changed}, "post": {n: post.get(n, '')[17:] for n in changed}})
    log(f"[C19g] corpus re-evaluation: {nprog} programs ({noassign} without assignments), {nev} events ({nsteps} step events) checked by TLC in {tt.wall:.1f}s, {len(mism)} rejected")
    # negative control: change one name's digest in a Step event of a program without assignments
    nc = 0
    for k, ln in enumerate(lines[:6000]):
        e = json.loads(ln)
        if e["kind"] == "Step" and e["ok"] and len(e["store"]) >= 2:
            # find session start and make sure it has no assignment
            b = k
            while json.loads(lines[b])["kind"] != "Reset": b -= 1
            if any(json.loads(x)["kind"] in ("Assign", "OpAssign") for x in lines[b:k]): continue
            n = sorted(x for x in e["store"] if x != "$")[0]; e["store"][n] = "corrupted"
            neg = lines[b:k] + [json.dumps(e)]
            p2 = path.replace(".ndjson", "_neg.ndjson"); open(p2, "w").write("\n".join(neg) + "\n")
            tn = tlc.run("Trace_C19g", "Trace_C19g.cfg", workers=1, env={"TRACE": p2}, deque=True, xss="1g", xmx="2g", timeout=600, tag="Trace_C19g_neg")
            nc = 1 if any("StepChangedNoAssign" in mm.get("rules", []) for mm in tn.msgs) else 0
            break
    if not nc:
        raise tlc.TlcError("negative control failed: a corrupted re-evaluation trace was accepted by Trace_C19g")
    rep.cov.update({"corpus_programs": nprog, "corpus_programs_without_assignment": noassign, "corpus_events_validated": nev,
                    "corpus_step_events": nsteps, "corpus_rejected_events": len(mism), "corpus_negative_controls_passed": nc})
    return nprog
