"""C19, generic part (impl -> spec on the repository's own programs): MechStepGen states re-evaluation over OPAQUE values
(fixed point for programs without assignments, n single steps = one request for n, instances agree).  TLC model-checks it
(judge accepts the specification's behaviours, rejects single-point corruptions) and validates traces recorded while the real
interpreter runs every program of tests/interpreter.rs (thorough: also docs) item by item, then 3 single steps, a second
instance with one request for 3 steps, and a third instance that only re-runs the items."""
import json, os, hashlib
import tlc, execpool
from core import log

def run(rep, tier, seed):
    t = tlc.run("MC_C19g", "MC_C19g.cfg", workers=4, timeout=1800, collect=())
    if t.violations or not t.ok:
        rep.fail("C19/model-gen", "TLC reported a violation on MechStepGen: " + "; ".join(t.errors[:3]), {"log": t.log})
    rep.cov["gen_model_states"] = t.distinct; rep.cov["gen_model_transitions"] = t.generated
    from areas.c05g import corpus
    progs = corpus(tier)
    zoo = zoo_corpus(rep)
    calls = call_programs(tier)
    rep.cov["zoo_programs"] = len(zoo); rep.cov["zoo_stdlib_call_programs"] = len(calls)
    progs = progs + zoo + calls
    K = 3
    reqs = [{"id": i, "mode": "stepwise", "text": p, "probes": False, "steps": K} for i, (_, p) in enumerate(progs)]
    outs = execpool.run_requests(reqs, nworkers=16, timeout=300)
    os.makedirs(os.path.join(tlc.OUT, "traces"), exist_ok=True)
    path = os.path.join(tlc.OUT, "traces", f"c19g_{tier}.ndjson")
    index = []; nev = 0; nprog = 0; nsteps = 0; noassign = 0; zoo_ok = 0
    SENT = {"$": "-"}
    with open(path, "w") as fh:
        for i, ((origin, text), (resp, oc)) in enumerate(zip(progs, outs)):
            if oc != "ok" or resp is None or "events" not in resp:
                rep.fail(f"C19/host-{oc}", f"program {origin} {text[:80]!r}: interpreter process {oc} during interpret/step", {"text": text}); continue
            evs = resp["events"]
            if not any(e["kind"] in ("Step", "StepN", "Rerun") for e in evs): continue
            nprog += 1
            if origin.startswith("zoo:") and all(e["ok"] for e in evs if e["origin"] == "program"): zoo_ok += 1
            if not any(e["kind"] in ("Assign", "OpAssign") for e in evs): noassign += 1
            fh.write(json.dumps({"sess": i, "kind": "Reset", "n": 0, "ok": True, "store": SENT}) + "\n"); index.append((i, -1)); nev += 1
            for j, e in enumerate(evs):
                st = {k: v for k, v in e["store"].items() if k != "ans"}; st.update(SENT)
                if e["class"] in ("PANIC", "STOREPANIC") and e["kind"] in ("Step", "StepN"):
                    rep.fail(f"C19/step-panics/{origin.split(':')[0]}:{hashlib.sha1(text.encode()).hexdigest()[:8]}",
                             f"{origin}: re-evaluation panics ({e['kind']} {e.get('n')}) after {[x['text'] for x in evs if x['origin']=='program'][-4:]}", {"text": text})
                fh.write(json.dumps({"sess": i, "kind": e["kind"], "n": e.get("n", 0), "ok": e["ok"], "store": st}) + "\n")
                index.append((i, j)); nev += 1
                if e["kind"] in ("Step", "StepN", "Rerun"): nsteps += 1
    tt = tlc.run("Trace_C19g", "Trace_C19g.cfg", workers=1, env={"TRACE": path}, deque=True, xss="1g", xmx="4g", timeout=1800, tag=f"Trace_C19g_{tier}")
    mism = [m for m in tt.msgs if "l" in m]
    if any("unconsumed" in m for m in tt.msgs) or (tt.rc != 0 and not tt.ok):
        raise tlc.TlcError(f"Trace_C19g did not consume the trace: {tt.msgs[:2]} {tt.errors[:2]}")
    lines = open(path).read().splitlines()
    for m in mism:
        sidx, j = index[m["l"] - 1]
        ev = json.loads(lines[m["l"] - 1]); prev = json.loads(lines[m["l"] - 2])
        origin, text = progs[sidx]
        pre, post = prev["store"], ev["store"]
        changed = sorted(n for n in set(pre) | set(post) if pre.get(n) != post.get(n))
        rules = sorted(m["rules"])
        sig = "C19/gen/" + "+".join(rules) + "/" + (origin if origin.startswith("zoo:") else origin.split(":")[0] + ":" + hashlib.sha1(text.encode()).hexdigest()[:8])
        rep.fail(sig, f"{origin} {text[:160]!r}: {ev['kind']} {ev['n']} breaks {rules}; names differing from the previous event: {changed}",
                 {"program": text, "event": ev["kind"], "n": ev["n"], "rules": rules, "changed": changed,
                  "pre": {n: pre.get(n, '')[17:] for n in changed}, "post": {n: post.get(n, '')[17:] for n in changed}})
    log(f"[C19g] corpus re-evaluation: {nprog} programs ({noassign} without assignments), {nev} events ({nsteps} step events) checked by TLC in {tt.wall:.1f}s, {len(mism)} rejected")
    # negative control: change one name's digest in a Step event of a program without assignments
    nc = 0
    for k, ln in enumerate(lines[:6000]):
        e = json.loads(ln)
        if e["kind"] == "Step" and e["ok"] and len(e["store"]) >= 2:
            # find session start and make sure it has no assignment
            b = k
            while json.loads(lines[b])["kind"] != "Reset": b -= 1
            if any(json.loads(x)["kind"] in ("Assign", "OpAssign") for x in lines[b:k]): continue
            n = sorted(x for x in e["store"] if x != "$")[0]; e["store"][n] = "corrupted"
            neg = lines[b:k] + [json.dumps(e)]
            p2 = path.replace(".ndjson", "_neg.ndjson"); open(p2, "w").write("\n".join(neg) + "\n")
            tn = tlc.run("Trace_C19g", "Trace_C19g.cfg", workers=1, env={"TRACE": p2}, deque=True, xss="1g", xmx="2g", timeout=600, tag="Trace_C19g_neg")
            nc = 1 if any("StepChangedNoAssign" in mm.get("rules", []) for mm in tn.msgs) else 0
            break
    if not nc:
        raise tlc.TlcError("negative control failed: a corrupted re-evaluation trace was accepted by Trace_C19g")
    rep.cov.update({"corpus_programs": nprog, "corpus_programs_without_assignment": noassign, "corpus_events_validated": nev,
                    "corpus_step_events": nsteps, "corpus_rejected_events": len(mism), "corpus_negative_controls_passed": nc, "zoo_programs_fully_evaluated": zoo_ok})
    return nprog


# ---------------------------------------------------------------------------------------------- kernel zoo (MC_C19z)
DIMS = {"scalar": (1, 1), "row3": (1, 3), "col3": (3, 1), "mat22": (2, 2), "mat23": (2, 3), "mat32": (3, 2), "mat44": (4, 4)}

def zlit(kind, n):
    if kind == "f64": return f"{n}.5"
    if kind == "bool": return "true" if n % 2 else "false"
    if kind == "string": return f'"s{n}"'
    if kind == "r64": return f"{n}/7"
    return f"{n}<{kind}>"

def zval(kind, shape, base):
    r, c = DIMS[shape]
    if shape == "scalar": return zlit(kind, base)
    return "[" + "; ".join(" ".join(zlit(kind, base + i + r * j) for j in range(c)) for i in range(r)) + "]"

def zoo_program(fam, shape, kind):
    """Mech text of the program named by (family, shape, kind); None when the combination makes no sense"""
    r, c = DIMS[shape]
    A = f"a := {zval(kind, shape, 2)}"; B = f"b := {zval(kind, shape, 3)}"
    S = f"s := {zlit(kind, 2)}"
    binop = {"add": "+", "sub": "-", "mul": "*", "div": "/", "mod": "%", "pow": "^", "lt": "<", "ge": ">=", "eq": "==", "ne": "!=",
             "and": "&&", "or": "||", "xor": "⊕"}
    if fam in binop: return [A, B, f"y := a {binop[fam]} b"]
    if fam == "neg": return [A, "y := -a"]
    if fam == "not": return [A, "y := !a"]
    if fam == "transpose": return [A, "y := a'"]
    if fam == "matmul": return [A, f"b := {zval(kind, {'row3': 'col3', 'col3': 'row3', 'mat23': 'mat32', 'mat32': 'mat23'}.get(shape, shape), 3)}", "y := a ** b"]
    if fam == "solve":
        if shape not in ("mat22", "mat44") or kind != "f64": return None
        n = r
        M = "[" + "; ".join(" ".join(str((3 if i == j else 0) + 1 + (i * n + j) % 3) for j in range(n)) for i in range(n)) + "]"
        return [f"a := {M}", "b := [" + "; ".join(str(2 + i) for i in range(n)) + "]", "y := a \\ b"]
    if fam == "dot": return None if shape not in ("row3", "col3", "mat22") else [A, B, "y := matrix/dot(a, b)"]
    if fam == "sumrow": return [A, "y := stats/sum/row(a)"]
    if fam == "sumcol": return [A, "y := stats/sum/column(a)"]
    if fam.startswith("horz"): return [A, B, "y := [" + " ".join(["a", "b"][i % 2] for i in range(int(fam[4]))) + "]"]
    if fam.startswith("vert"): return [A, B, "y := [" + "; ".join(["a", "b"][i % 2] for i in range(int(fam[4]))) + "]"]
    if fam == "block22": return [A, B, "y := [a b; b a]"]
    if fam in ("rng", "rngi", "rngs", "rngsi"):
        if shape != "scalar": return None
        lo, st, hi = zlit(kind, 1), zlit(kind, 2), zlit(kind, 8)
        return [f"lo := {lo}", f"st := {st}", f"hi := {hi}", "y := " + {"rng": "lo..hi", "rngi": "lo..=hi", "rngs": "lo..st..hi", "rngsi": "lo..st..=hi"}[fam]]
    if fam.startswith("idx_"):
        if shape == "scalar": return None
        f = fam[4:]
        one = {"s": "2", "v": "[1 2]", "r": "1..=2", "a": ":", "m": "[" + " ".join("true" if i % 2 == 0 else "false" for i in range(r * c)) + "]"}
        rowi = {"s": "1", "v": f"[1 {r}]" if r > 1 else "[1 1]", "a": ":", "m": "[" + " ".join("true" if i % 2 == 0 else "false" for i in range(r)) + "]"}
        coli = {"s": "1", "v": f"[{c} 1]" if c > 1 else "[1 1]", "a": ":", "m": "[" + " ".join("true" if i % 2 == 0 else "false" for i in range(c)) + "]"}
        if len(f) == 1: return [A, f"y := a[{one[f]}]"]
        return [A, f"y := a[{rowi[f[0]]},{coli[f[1]]}]"]
    if fam == "conv_up": return [A, f"y<{'[f64]' if shape != 'scalar' else 'f64'}> := a"]
    if fam == "conv_down": return [A, f"y<{'[u8]' if shape != 'scalar' else 'u8'}> := a"]
    if fam == "reshape": return None if shape == "scalar" else [A, f"y<[{kind}]:{c},{r}> := a"]
    if fam == "toset": return None if shape == "scalar" else [A, "y<{" + kind + "}> := a"]
    if fam in ("union", "inter", "diff", "symdiff", "subset", "superset", "member", "setcomp"):
        if shape != "row3": return None
        sa = "{" + ", ".join(zlit(kind, n) for n in (2, 3, 4)) + "}"; sb = "{" + ", ".join(zlit(kind, n) for n in (3, 4, 5)) + "}"
        op = {"union": "a ∪ b", "inter": "a ∩ b", "diff": "a ∖ b", "symdiff": "a Δ b", "subset": "a ⊆ b", "superset": "a ⊇ b",
              "member": f"{zlit(kind, 3)} ∈ a", "setcomp": "{x | x <- a}"}[fam]
        return [f"a := {sa}", f"b := {sb}", f"y := {op}"]
    if fam == "matcomp": return None if shape != "row3" else [A, "y := [x | x <- a]"]
    if fam.startswith("join_") or fam.startswith("tbl"):
        if shape != "mat22": return None
        # several rows WITHOUT a partner on either side (and a duplicate key): the order in which a kernel appends the unmatched rows
        # must not depend on anything but the operands (hash-set iteration order differs per instance and per re-evaluation)
        ta = f"a := | k<u8> p<{kind}> | 1 {zlit(kind, 2)} | 2 {zlit(kind, 3)} | 2 {zlit(kind, 4)} | 8 {zlit(kind, 5)} | 9 {zlit(kind, 6)} |"
        tb = f"b := | k<u8> q<{kind}> | 2 {zlit(kind, 5)} | 3 {zlit(kind, 6)} | 4 {zlit(kind, 2)} | 5 {zlit(kind, 3)} | 6 {zlit(kind, 4)} | 7 {zlit(kind, 7)} |"
        op = {"join_inner": "a ⋈ b", "join_left": "a ⟕ b", "join_right": "a ⟖ b", "join_full": "a ⟗ b", "join_semi": "a ⋉ b", "join_anti": "a ▷ b",
              "tblsel_i": "a[2]", "tblsel_v": "a[[1 3]]", "tblsel_m": "a[[true false true false true]]", "tblcol": "a.p"}[fam]
        return [ta, tb, f"y := {op}"]
    if fam == "strcat": return None if (kind != "string" or shape != "scalar") else [A, B, "y := a + b"]
    if fam == "recfield": return None if shape != "scalar" else [f"a := {{p: {zlit(kind, 2)}, q: {zlit(kind, 3)}}}", "y := a.q"]
    if fam == "tupaccess": return None if shape != "scalar" else [f"a := ({zlit(kind, 2)}, {zlit(kind, 3)})", "y := a.2"]
    if fam == "mapaccess": return None if shape != "scalar" else [f'a := {{"k1": {zlit(kind, 2)}, "k2": {zlit(kind, 3)}}}', 'y := a{"k2"}']
    if fam == "sin": return [A, "y := math/sin(a)"]
    if fam in ("max", "min"): return [A, B, f"y := compare/{fam}(a, b)"]
    if fam == "fncall": return None if kind != "u8" else ["inc(x<u8>) => <u8>\n  | * => x + 1<u8>.", A, "y := inc(a)"]
    if fam == "matchexpr": return None if (shape != "scalar" or kind != "u8") else [A, "y := a?\n  | 2<u8> => 7<u8>\n  | * => 9<u8>."]
    if fam == "scalar_bcast_l": return None if shape == "scalar" else [A, S, "y := s + a"]
    if fam == "scalar_bcast_r": return None if shape == "scalar" else [A, S, "y := a - s"]
    if fam == "row_bcast": return None if shape not in ("mat22", "mat23", "mat32", "mat44") else [A, f"b := {zval(kind, 'row3', 3) if c == 3 else '[' + ' '.join(zlit(kind, 3 + i) for i in range(c)) + ']'}", "y := a + b"]
    if fam == "col_bcast": return None if shape not in ("mat22", "mat23", "mat32", "mat44") else [A, "b := [" + "; ".join(zlit(kind, 3 + i) for i in range(r)) + "]", "y := a + b"]
    return None

def stdlib_names():
    """every qualified function name that occurs as a string in the standard-library sources (generating inputs only: a
    name that is not callable simply yields a program that does not evaluate)"""
    import subprocess
    try:
        out = subprocess.run(["grep", "-rhoE", r'"(math|stats|matrix|set|string|combinatorics|compare|logic|range|table|convert)/[a-z0-9/-]+"',
                              "/repo/machines", "/repo/src/interpreter/src"], stdout=subprocess.PIPE, text=True, timeout=120).stdout
    except Exception:
        return []
    return sorted({x.strip('"') for x in out.split() if "assign" not in x})

def call_programs(tier="quick"):
    """generic kernel zoo: name(args) for every harvested name, 1..3 arguments of one shape and kind; whatever evaluates must be
    a fixed point of re-evaluation"""
    progs = []
    shapes = ["scalar", "row3", "col3", "mat22"] + (["mat23"] if tier != "quick" else [])
    for name in stdlib_names():
        for ar in (1, 2, 3):
            for shape in shapes:
                for kind in (["f64"] if tier == "quick" or shape not in ("scalar", "row3") else ["f64", "u8", "bool", "string"]):
                    args = "abc"[:ar]
                    st = [f"{v} := {zval(kind, shape, 2 + i)}" for i, v in enumerate(args)]
                    if name.startswith("set/") and shape == "row3":
                        st = [f"{v} := {{" + ", ".join(zlit(kind, 2 + i + j) for j in range(3)) + "}" for i, v in enumerate(args)]
                    st.append(f"y := {name}({', '.join(args)})")
                    progs.append((f"zoo:call:{name}/{ar}/{shape}/{kind}", "\n".join(st)))
    return progs

def zoo_corpus(rep, tier="quick"):
    t = tlc.run("MC_C19z", "MC_C19z.cfg", workers=4, timeout=600)
    if not t.ok: raise tlc.TlcError("MC_C19z did not complete")
    progs = []
    for cs in sorted(t.cases, key=lambda c: (c["fam"], c["shape"], c["kind"])):
        st = zoo_program(cs["fam"], cs["shape"], cs["kind"])
        if st: progs.append((f"zoo:{cs['fam']}/{cs['shape']}/{cs['kind']}", "\n".join(st)))
    return progs
