"""C03 — indexing reads: TLC enumerates (shape, index forms, index values) over MechIndex and
computes the selected cells; every case is rendered and run on the real interpreter."""
import random
import tlc, execpool, render, absval
from core import log

PROP = "C03"

def render_form(f, ikind, rng_excl):
    k = f["f"]
    if k == "s": return render.index_scalar(f["ix"][0], ikind)
    if k == "v": return render.index_vector(f["ix"], ikind)
    if k == "r":
        a, b = f["ix"][0], f["ix"][-1]
        return f"{a}..{b + 1}" if rng_excl else f"{a}..={b}"
    if k == "a": return ":"
    if k == "m": return render.mask_literal(f["mask"])
    raise ValueError(f)

def expected_value(case, kind):
    res = case["res"]
    vals = [render.token_value(kind, t) for t in res["d"]]
    if res["scalar"]:
        return [vals[0]]
    alts = [('mat', kind, res["r"], res["c"], tuple(vals))]
    return alts

def run(rep, tier, seed):
    rnd = random.Random(seed)
    cfg = "MC_C03_quick.cfg" if tier == "quick" else "MC_C03_thorough.cfg"
    t = tlc.run("MC_C03", cfg, workers=16, timeout=3000)
    if t.violations or not t.ok:
        rep.fail("C03/model", "TLC reported a violation of a model-level law: " + "; ".join(t.errors[:3]), {"log": t.log})
    cases = t.cases
    log(f"[C03] TLC: {t.generated} states, {t.distinct} distinct, {len(cases)} cases in {t.wall:.1f}s")
    # expand over element kinds: f64 always; every case additionally with one rotating kind (quick)
    # or with u8/bool/string + one rotating kind (thorough)
    kinds = render.ELEM_KINDS
    reqs = []; meta = []
    for n, cs in enumerate(cases):
        ks = ["f64", kinds[1 + (n % (len(kinds) - 1))]]
        if tier != "quick":
            ks += ["u8", "bool", "string"]
        ks = list(dict.fromkeys(ks))
        for j, kind in enumerate(ks):
            ikind = "f64" if j == 0 else render.INDEX_KINDS[(n // 3) % len(render.INDEX_KINDS)]
            if ikind[0] in "iu" and any(i > 120 for f in (cs["f1"], cs["f2"]) for i in f["ix"]):
                ikind = "f64"
            r, c = cs["r"], cs["c"]
            vals = [render.token_value(kind, tkn) for tkn in range(1, r * c + 1)]
            define = render.define_matrix("x", kind, r, c, vals)
            excl = (n % 2 == 1)
            idx = render_form(cs["f1"], ikind, excl)
            if cs["nd"] == 2:
                idx += "," + render_form(cs["f2"], ikind, not excl)
            stmts = [define, f"x[{idx}]"]
            reqs.append({"id": len(reqs), "mode": "session", "stmts": stmts,
                         "opts": {"store": True, "names": ["x"], "arm": True}})
            meta.append((cs, kind, ikind, vals, ""))
            # the same read with the index taken from VARIABLES (scalar, vector, mask and range values held by names)
            if j == 0 and any(f["f"] != "a" for f in ([cs["f1"]] + ([cs["f2"]] if cs["nd"] == 2 else []))):
                pre = []; parts = []
                for q, f in enumerate([cs["f1"]] + ([cs["f2"]] if cs["nd"] == 2 else [])):
                    if f["f"] == "a": parts.append(":")
                    else:
                        pre.append(f"i{q + 1} := {render_form(f, ikind, excl if q == 0 else not excl)}"); parts.append(f"i{q + 1}")
                reqs.append({"id": len(reqs), "mode": "session", "stmts": [define] + pre + [f"x[{','.join(parts)}]"],
                             "opts": {"store": True, "names": ["x"], "arm": True}})
                meta.append((cs, kind, ikind, vals, "/ixvar"))
    log(f"[C03] replaying {len(reqs)} cases on the interpreter")
    outs = execpool.run_requests(reqs, nworkers=16, timeout=120)
    arms = set(); free = 0; exact_ok = 0; reject_ok = 0
    unbuildable = 0
    for req, (resp, oc), (cs, kind, ikind, vals, variant) in zip(reqs, outs, meta):
        sig = cs["sig"] + variant
        replay = {"stmts": req["stmts"], "case": cs, "kind": kind}
        if oc != "ok" or "steps" not in (resp or {}):
            rep.fail(sig + "/host-" + oc, f"{req['stmts']} -> interpreter process {oc}", replay); continue
        st = resp["steps"]
        if st[0].get("r") != "ok":
            rep.fail("C03/setup/" + kind, f"operand could not be built: {req['stmts'][0]} -> {st[0]}", replay); continue
        if any(x.get("r") != "ok" for x in st[1:-1]):
            unbuildable += 1; continue          # the index value itself cannot be built as a variable (e.g. an empty range)
        rd = st[-1]
        if rd.get("p") != "ok" or not (rd.get("shape") and rd["shape"][0].startswith("MechCode")):
            rep.fail(sig + "/noparse", f"{req['stmts'][-1]} did not parse as code: {rd.get('p')} {rd.get('shape')}", replay); continue
        arms.add(rd.get("arm"))
        # purity: x unchanged after the read (also after a failing read)
        xs = rd.get("store", {}).get("x")
        orig = ('mat', kind, cs["r"], cs["c"], tuple(vals))
        if xs is None or absval.absval(xs["v"]) != orig:
            rep.fail(sig + "/purity", f"{req['stmts']} changed x: {absval.short(absval.absval(xs['v'])) if xs else None}", replay); continue
        ok = rd["r"] == "ok"
        exp = cs["exp"]
        if exp == "reject":
            if ok:
                fsig = "C03/mask-wrong-length-accepted/" + "/".join(cs["sig"].split("/")[1:]) if cs.get("why") == "mask-length" else sig + "/accepts-out-of-range"
                rep.fail(fsig, f"{req['stmts']} returned {absval.short(absval.absval(rd['v']))} but addresses no element", replay)
            else: reject_ok += 1
            continue
        if not ok:
            if exp == "exact":
                rep.fail(sig + "/rejects-supported", f"{req['stmts']} rejected ({rd.get('class')}) but the form is supported", replay)
            else: free += 1
            continue
        if cs["res"]["r"] * cs["res"]["c"] == 0:
            free += 1; continue
        got = absval.absval(rd["v"])
        alts = expected_value(cs, kind)
        n_el = cs["res"]["r"] * cs["res"]["c"]
        if n_el == 1 and not cs["res"]["scalar"]:
            alts = alts + [alts[0][4][0]]          # a single selected element may come back as a scalar
        if got in alts:
            exact_ok += 1
        else:
            rep.fail(sig + "/wrong-value", f"{req['stmts']} = {absval.short(got)} expected {absval.short(alts[0])}", replay)
    rep.cov.update({"states": t.generated, "transitions": t.generated - 1 if t.generated else 0, "distinct_states": t.distinct,
                    "traces_validated_against_impl": len(reqs), "cases_emitted": len(cases),
                    "cases_replayed": len(reqs), "exact_matched": exact_ok, "rejects_matched": reject_ok,
                    "free_outcomes": free, "index_variable_unbuildable": unbuildable, "arms_hit": len(arms), "exhaustive": True,
                    "rule": "every (shape, index form pair, index values incl. 0 and n+1, masks of right and wrong length) of the bounded MechIndex model; each replayed for f64 and a rotating element kind / index kind"})
    rep.add_samples([{"stmts": r["stmts"], "exp": m[0]["exp"], "sig": m[0]["sig"]} for r, m in zip(reqs, meta)])
    rep.assumptions += ["TLC 1.8.0", "harness projection (harness/src/project.rs)", "renderer lib/render.py",
                        "Supported table Sup1/Sup2 in spec/MC_C03.tla (calibrated on the pinned tree)"]
