"""G02 — structured values (records, tuples, maps, tables): construction, component read, component update.

spec/MechStruct.tla is enumerated by TLC through spec/MC_G02.tla (container kind x component kinds x size x key order
x scenario); the model-level laws (read-after-write, frame, failure atomicity, kinds preserved, order irrelevance for
reads / order preserved in the value, idempotence, last-write-wins, commutation, the documented table<->row-record
alias, the bound on literals with duplicate keys) are TLC invariants.  Every emitted case is rendered to Mech
statements and run in ONE session on the real interpreter with the store option: the WHOLE variable (value, kind
string, mutability) is compared with the model after EVERY statement - also after a rejected statement, where nothing
may have changed."""
import collections, os
from fractions import Fraction
import tlc, execpool, absval, render
from core import log

PROP = "G02"
NAMES = {1: "a", 2: "b", 3: "c", 4: "d", 9: "q"}
VAR, ROWVAR = "v", "w"

# ------------------------------------------------------------------------------------------------ model -> concrete
def cval(v, key=False):
    """model scalar [k, t] -> canonical value.  Map keys of kind f64 are integer valued (31 vs 31u8: a key of another
    kind that is numerically equal must still not find the element)."""
    k, t = v["k"], v["t"]
    if k == "bool": return ('bool', t == 1)
    if k == "f64" and key: return ('num', 'f64', Fraction(10 + t))
    return render.token_value(k, t)

def lit(v, key=False, bare_u8=False):
    c = cval(v, key)
    if bare_u8 and v["k"] == "u8": return str(c[2].numerator)
    return render.scalar_lit(c)

def key_text(k):
    if k["k"] == "name": return NAMES[k["t"]]
    if k["k"] in ("pos", "row"): return str(k["t"])
    return lit(k, key=True)

def key_id(k):
    """canonical identity of a component key (field name / position / map key value)"""
    if k["k"] == "name": return NAMES[k["t"]]
    if k["k"] in ("pos", "row"): return k["t"]
    return cval(k, key=True)

def con_value(C):
    """model container / result -> canonical value (same forms as absval.absval, maps as frozensets)"""
    c = C["c"]
    if c == "sc": return cval(C["rows"][0][0])
    if c == "col":
        vals = tuple(cval(r[0]) for r in C["rows"])
        return ('mat', C["kd"][0], len(vals), 1, vals)
    if c == "rec": return ('rec', tuple((NAMES[k["t"]], kd, cval(v)) for k, kd, v in zip(C["ks"], C["kd"], C["rows"][0])))
    if c == "tup": return ('tup', tuple(cval(v) for v in C["rows"][0]))
    if c == "map": return ('map', frozenset((cval(k, True), cval(v)) for k, v in zip(C["ks"], C["rows"][0])))
    if c == "tbl":
        return ('tbl', len(C["rows"]), tuple((NAMES[k["t"]], kd, tuple(cval(r[i]) for r in C["rows"]))
                                            for i, (k, kd) in enumerate(zip(C["ks"], C["kd"]))))
    raise ValueError(c)

def con_kind(C):
    """the kind string the documents give for the value"""
    c = C["c"]
    if c == "sc": return C["kd"][0]
    if c == "col": return f"[{C['kd'][0]}]:{len(C['rows'])},1"
    if c == "rec": return "{" + " ".join(f"{NAMES[k['t']]}<{kd}>" for k, kd in zip(C["ks"], C["kd"])) + "}"
    if c == "tup": return "(" + ",".join(C["kd"]) + ")"
    if c == "map": return "{" + C["ks"][0]["k"] + ":" + C["kd"][0] + "}"
    if c == "tbl": return "|" + " ".join(f"{NAMES[k['t']]}<{kd}>" for k, kd in zip(C["ks"], C["kd"])) + f"|:{len(C['rows'])}"
    raise ValueError(c)

def observed(p):
    v = absval.absval(p)
    if v[0] == 'map':
        return ('map', frozenset(v[1])) if len(set(v[1])) == len(v[1]) and len({a for a, _ in v[1]}) == len(v[1]) else ('map-dupkeys', v[1])
    return v

def show(v):
    if v is None: return "undefined"
    t = v[0]
    if t == 'rec': return "{" + ", ".join(f"{n}<{k}>: {show(x)}" for n, k, x in v[1]) + "}"
    if t == 'tup': return "(" + ", ".join(show(x) for x in v[1]) + ")"
    if t in ('map', 'map-dupkeys'): return "{" + ", ".join(f"{show(a)}: {show(b)}" for a, b in sorted(v[1], key=str)) + "}"
    if t == 'tbl': return f"|{' '.join(f'{n}<{k}>' for n, k, _ in v[2])}|:{v[1]} " + " | ".join(" ".join(show(c[2][i]) if i < len(c[2]) else "?" for c in v[2]) for i in range(v[1]))
    try: return absval.short(v)
    except Exception: return str(v)

# ------------------------------------------------------------------------------------------------ rendering
def entries_of(C):
    return [(k, kd, [r[i] for r in C["rows"]]) for i, (k, kd) in enumerate(zip(C["ks"], C["kd"]))]

def literal(c, entries, annotate=False):
    """source text of the literal with the given entries [(key, kind, [values per row])] (entries may repeat a key)"""
    if c == "rec":
        if annotate:    # record.mec 2.2: the kind of a field can be given explicitly; then an untyped number is converted
            return "{" + ", ".join(f"{key_text(k)}<{kd}>: {lit(vs[0], bare_u8=True)}" for k, kd, vs in entries) + "}"
        return "{" + ", ".join(f"{key_text(k)}: {lit(vs[0])}" for k, kd, vs in entries) + "}"
    if c == "tup": return "(" + ", ".join(lit(vs[0]) for _, _, vs in entries) + ")"
    if c == "par": return "(" + lit(entries[0][2][0]) + ")"
    if c == "map": return "{" + ", ".join(f"{key_text(k)}: {lit(vs[0])}" for k, kd, vs in entries) + "}"
    if c == "tbl":
        head = " ".join(f"{key_text(k)}<{kd}>" for k, kd, _ in entries)
        m = len(entries[0][2])
        body = " | ".join(" ".join(lit(vs[r], bare_u8=annotate) for _, _, vs in entries) for r in range(m))
        return f"| {head} | {body} |"
    raise ValueError(c)

def access(C, key, var=VAR):
    if key["k"] == "row": return f"{var}[{key['t']}]"
    if C["c"] == "map": return f"{var}{{{key_text(key)}}}"
    return f"{var}.{key_text(key)}"

def source(S):
    if S["c"] == "sc": return lit(S["rows"][0][0])
    return "[" + "; ".join(lit(r[0]) for r in S["rows"]) + "]"

def component(C, key):
    """what reading `key` of the (well-formed) model value C gives: ('val', canonical, kindstring) | ('none',)"""
    if key["k"] == "row":
        if 1 <= key["t"] <= len(C["rows"]):
            R = {"c": "rec", "ks": C["ks"], "kd": C["kd"], "rows": [C["rows"][key["t"] - 1]]}
            return ('val', con_value(R), con_kind(R))
        return ('none',)
    for i, k in enumerate(C["ks"]):
        if k == key:
            if C["c"] == "tbl":
                R = {"c": "col", "ks": [], "kd": [C["kd"][i]], "rows": [[r[i]] for r in C["rows"]]}
            else:
                R = {"c": "sc", "ks": [], "kd": [C["kd"][i]], "rows": [[C["rows"][0][i]]]}
            return ('val', con_value(R), con_kind(R))
    return ('none',)

def all_reads(C):
    keys = list(C["ks"])
    if C["c"] == "tbl": keys += [{"k": "row", "t": r + 1} for r in range(len(C["rows"]))]
    return keys

def build(cs, n):
    """-> (stmts, checks); checks[i] describes what statement i must do"""
    C, op = cs["C"], cs["op"]
    c = C["c"]
    til = "~" if cs["mut"] else ""
    annotate = (n % 2 == 1) and c in ("rec", "tbl")
    ents = entries_of(C)
    stmts, checks = [], []
    if op == "dup":
        S = cs["src"]
        dup = (cs["key"], S["kd"][0], [r[0] for r in S["rows"]])
        stmts.append(f"{VAR} := {literal(c, ents + [dup], False)}")
        checks.append(("defdup", ents + [dup]))
        for k in C["ks"]:
            stmts.append(access(C, k)); checks.append(("readstored", k))
        return stmts, checks
    stmts.append(f"{til}{VAR} := {literal(c, ents, annotate)}")
    if c == "par":
        checks.append(("value", cs["res"], None)); return stmts, checks
    checks.append(("define", C))
    if op == "construct":
        for k in all_reads(C):
            stmts.append(access(C, k)); checks.append(("read", k, "exact", C, None))
    elif op == "read":
        stmts.append(access(C, cs["key"])); checks.append(("read", cs["key"], cs["exp"], C, cs["res"]))
    elif op == "write":
        stmts.append(f"{access(C, cs['key'])} = {source(cs['src'])}")
        checks.append(("write", cs["exp"], C, cs["post"]))
        stmts.append(access(C, cs["key"])); checks.append(("readback", cs["key"]))
    elif op == "rowset":
        row = {"k": "row", "t": cs["row"]}
        R0 = {"c": "rec", "ks": C["ks"], "kd": C["kd"], "rows": [C["rows"][cs["row"] - 1]]}
        stmts.append(f"~{ROWVAR} := {access(C, row)}"); checks.append(("defrow", C, R0))
        stmts.append(f"{access(R0, cs['key'], ROWVAR)} = {source(cs['src'])}")
        checks.append(("rowset", cs["exp"], C, cs["post"], R0, cs["rec"]))
        stmts.append(access(C, row)); checks.append(("readback", row))
    else:
        raise ValueError(op)
    return stmts, checks

# ------------------------------------------------------------------------------------------------ judging
def store_of(ev, name):
    st = (ev.get("store") or {}).get(name)
    if st is None: return None, None, False
    return observed(st["v"]), st.get("k"), name in (ev.get("mut") or [])

def diff_class(exp_v, got_v, target_id):
    """which part of a structured value differs from the expectation -> 'target' | 'frame' | 'shape'"""
    if got_v is None or exp_v[0] != got_v[0]: return "shape"
    t = exp_v[0]
    def comps(v):
        if t == 'rec': return [(n, (k, x)) for n, k, x in v[1]]
        if t == 'tup': return [(i + 1, x) for i, x in enumerate(v[1])]
        if t == 'map': return sorted(v[1], key=str)
        if t == 'tbl': return [(n, (k, col)) for n, k, col in v[2]]
        return [(0, v)]
    e, g = comps(exp_v), comps(got_v)
    if [a for a, _ in e] != [a for a, _ in g]: return "shape"
    bad = [a for (a, x), (_, y) in zip(e, g) if x != y]
    if any(a != target_id for a in bad): return "frame"
    return "target"

def dup_ok(c, entries, got, gotkind):
    """MechStruct!DupOK on the observed value: exactly the written keys, each once, each carrying one of the
    (kind, values) written under that key; the declared kind of a slot is the kind of its values"""
    if c == "rec":
        if got[0] != 'rec': return "shape", f"is not a record: {show(got)}"
        comps = [(n, k, (x,)) for n, k, x in got[1]]
    elif c == "tbl":
        if got[0] != 'tbl': return "shape", f"is not a table: {show(got)}"
        comps = [(n, k, tuple(col)) for n, k, col in got[2]]
        if any(len(col) != got[1] for _, _, col in comps): return "shape", f"columns of different lengths: {show(got)}"
    else:
        if got[0] != 'map': return "dupkeys", f"is not a map with unique keys: {show(got)}"
        comps = [(a, None, (b,)) for a, b in got[1]]
    written = collections.defaultdict(list)
    for k, kd, vs in entries:
        written[key_id(k)].append((kd, tuple(cval(x) for x in vs)))
    ids = [a for a, _, _ in comps]
    if len(set(ids)) != len(ids): return "dupkeys", f"holds a key twice: {show(got)}"
    if set(ids) != set(written): return "keys", f"has keys {ids}, written {sorted(written, key=str)}"
    for a, k, vals in comps:
        cands = written[a]
        if not any(vals == cv for _, cv in cands):
            return "foreign-value", f"key {a} holds {[show(x) for x in vals]}, written under it: {[[show(x) for x in cv] for _, cv in cands]}"
        if k is not None:
            vk = {kind_of(x) for x in vals}
            if vk != {k}: return "kind-inconsistent", f"slot {a} is declared <{k}> but holds {[show(x) for x in vals]} in {show(got)} (kind string {gotkind})"
            if not any(vals == cv and k == ck for ck, cv in cands):
                return "kind-foreign", f"slot {a} declared <{k}> with values {[show(x) for x in vals]}: no entry was written like that"
    return None

def kind_of(x):
    if x[0] == 'num': return x[1]
    if x[0] == 'bool': return 'bool'
    if x[0] == 'str': return 'string'
    return x[0]

def is_none(ev):
    try: v = absval.absval(ev["v"])
    except Exception: return False
    return v[0] == 'empty' or (v[0] == 'other' and 'none' in str(v).lower())

def judge(rep, cs, n, stmts, checks, resp, oc, tally):
    # failures are keyed by the model's FAMILY signature (positions / sizes dropped); the case signature goes into the text
    sig0 = cs["fam"] + ("/mut" if cs["op"] == "read" and cs["mut"] else "")
    replay = {"stmts": stmts, "case_sig": cs["sig"], "case": {k: cs[k] for k in ("C", "op", "key", "src", "mut", "vc", "row", "exp")}}
    if oc != "ok" or "steps" not in (resp or {}):
        rep.fail(f"{sig0}/host-{oc}", f"{stmts} -> interpreter process {oc}", replay); return False
    C = cs["C"]
    cur = None            # model value of VAR right now (None: unknown -> stop)
    currow = None
    stored = None
    ok_all = True
    def fail(suffix, text, upto):
        nonlocal ok_all
        ok_all = False
        rep.fail(f"{sig0}/{suffix}", f"[{cs['sig']}] {stmts[:upto + 1]}: {text}", dict(replay, failing=stmts[upto]))
    for j, (text, chk, ev) in enumerate(zip(stmts, checks, resp["steps"])):
        tally["statements"] += 1
        parsed = ev.get("p") == "ok" and ev.get("shape") and ev["shape"][0].startswith("MechCode")
        if not parsed:
            fail("noparse", f"did not parse as code ({ev.get('p')} {ev.get('shape')})", j); return False
        r = ev.get("r")
        if r == "panic":
            fail("panic", "panicked out of the interpreter", j); return False
        ok = r == "ok"
        err = f"{ev.get('class')}: {str(ev.get('msg'))[:160]}"
        gv, gk, gm = store_of(ev, VAR)
        kind = chk[0]
        if kind == "value":        # (v) is v
            exp = con_value(chk[1])
            if not ok: fail("rejected", f"rejected ({err})", j); return False
            got = observed(ev["v"])
            if got != exp or ev.get("k") != con_kind(chk[1]): fail("value", f"= {show(got)} <{ev.get('k')}>, expected {show(exp)}", j); return False
            tally["exact"] += 1; continue
        if kind == "define":
            exp, ek = con_value(chk[1]), con_kind(chk[1])
            if not ok:
                rep.fail(f"G02/{C['c']}/define/rejected/{','.join(C['kd'])}", f"{text} rejected ({err})", replay); return False
            if gv != exp:
                rep.fail(f"G02/{C['c']}/define/value/{','.join(C['kd'])}", f"{text}: the variable holds {show(gv)}, expected {show(exp)}", replay); return False
            if gk != ek:
                rep.fail(f"G02/{C['c']}/define/kind/{','.join(C['kd'])}", f"{text}: kind {gk}, expected {ek}", replay); return False
            if gm != cs["mut"]:
                rep.fail(f"G02/{C['c']}/define/mutability", f"{text}: mutable={gm}, expected {cs['mut']}", replay); return False
            cur = chk[1]; continue
        if kind == "defdup":
            if not ok:
                tally["free_rejected"] += 1; tally["free"] += 1; return True      # the documents are silent: rejecting the literal is fine
            bad = dup_ok(C["c"], chk[1], gv, gk)
            if bad:
                fail(bad[0], f"the literal with a repeated key {bad[1]}", j); return False
            stored = gv; tally["free"] += 1; tally["free_accepted"] += 1; continue
        if kind == "readstored":   # reading a key of the value built from the literal with a repeated key returns what is stored there
            kid = key_id(chk[1])
            if stored[0] == 'rec': want = [x for nme, _, x in stored[1] if nme == kid][0]
            elif stored[0] == 'map': want = [b for a, b in stored[1] if a == kid][0]
            else:
                col = [(k, cl) for nme, k, cl in stored[2] if nme == kid][0]
                want = ('mat', col[0], len(col[1]), 1, tuple(col[1]))
            if not ok: fail("read-rejected", f"rejected ({err}) although the key is there", j); return False
            got = observed(ev["v"])
            if got != want: fail("read-value", f"= {show(got)}, the variable holds {show(want)} there", j); return False
            if gv != stored: fail("read-changes-store", f"changed the variable to {show(gv)}", j); return False
            continue
        if kind == "defrow":
            _, T, R0 = chk
            wv, wk, wm = store_of(ev, ROWVAR)
            if not ok: fail("rowdef-rejected", f"rejected ({err})", j); return False
            if wv != con_value(R0) or wk != con_kind(R0): fail("rowdef-value", f"{ROWVAR} holds {show(wv)} <{wk}>, expected {show(con_value(R0))}", j); return False
            if gv != con_value(T): fail("rowdef-changes-table", f"the table became {show(gv)}", j); return False
            currow = R0; continue
        # ---- the scenario statement and its read-backs
        if kind == "read":
            _, key, exp, base, res = chk
            # one read scenario: the model's result; the reads of the "construct" scenario: the component of the model value (ConstructRead)
            want = ('val', con_value(res), con_kind(res)) if res is not None and res["c"] in ("sc", "col", "rec") else component(base, key)
            if gv != con_value(base) or gk != con_kind(base):
                fail("read-changes-store", f"changed the variable to {show(gv)} <{gk}>", j); return False
            if exp == "exact":
                if not ok: fail("rejected", f"rejected ({err}), expected {show(want[1]) if want[0] == 'val' else 'a value'}", j); return False
                got = observed(ev["v"])
                if want[0] != 'val': fail("value", f"= {show(got)}, but the model has no such component", j); return False
                if got != want[1]:
                    fail("value", f"= {show(got)}, expected {show(want[1])}", j); return False
                if ev.get("k") != want[2]:
                    fail("kind", f"has kind {ev.get('k')}, expected {want[2]}", j); return False
                tally["exact"] += 1
            elif exp == "reject":
                if ok: fail("accepted", f"returned {show(observed(ev['v']))} although the component does not exist", j); return False
                tally["reject"] += 1
            elif exp == "absent":
                if ok and not is_none(ev): fail("accepted", f"returned {show(observed(ev['v']))} although the key is not in the map", j); return False
                tally["absent"] += 1; tally["absent_as_error" if not ok else "absent_as_none"] += 1
            continue
        if kind == "write":
            _, exp, base, post = chk
            tid = key_id(cs["key"])
            accepted = ok
            if exp == "exact" and not ok: fail("rejected", f"rejected ({err})", j); return False
            if exp == "reject" and ok:
                fail("accepted", f"accepted; the variable is now {show(gv)}", j); return False
            want = post if accepted else base
            if gv != con_value(want) or gk != con_kind(want):
                if not accepted: fail("atomic", f"was rejected ({err}) but the variable changed to {show(gv)} <{gk}> (was {show(con_value(base))})", j)
                else: fail("post-" + diff_class(con_value(want), gv, tid), f"left {show(gv)} <{gk}>, expected {show(con_value(want))} <{con_kind(want)}>", j)
                return False
            if gm != cs["mut"]: fail("mutability", f"mutable={gm} afterwards", j); return False
            tally[exp] += 1
            if exp == "free": tally["free_accepted" if accepted else "free_rejected"] += 1
            cur = want; continue
        if kind == "rowset":
            _, exp, T, postT, R0, postR = chk
            wv, wk, wm = store_of(ev, ROWVAR)
            if exp == "exact" and not ok: fail("rejected", f"rejected ({err})", j); return False
            if exp == "reject" and ok: fail("accepted", f"accepted; table {show(gv)}, record {show(wv)}", j); return False
            wantT, wantR = (postT, postR) if ok else (T, R0)
            if wv != con_value(wantR) or wk != con_kind(wantR):
                fail("atomic-record" if not ok else "record", f"the record is {show(wv)} <{wk}>, expected {show(con_value(wantR))}", j); return False
            if gv != con_value(wantT) or gk != con_kind(wantT):
                fail("atomic-table" if not ok else "table-" + diff_class(con_value(wantT), gv, key_id(cs["key"])),
                     f"the table is {show(gv)} <{gk}>, expected {show(con_value(wantT))} (record.mec 5.2: updating the record updates the table)", j); return False
            tally[exp] += 1; cur = wantT; continue
        if kind == "readback":
            want = component(cur, chk[1])
            if gv != con_value(cur): fail("read-changes-store", f"changed the variable to {show(gv)}", j); return False
            if want[0] == 'none':
                if ok and not is_none(ev): fail("readback-accepted", f"returned {show(observed(ev['v']))} for a component that does not exist", j); return False
            else:
                if not ok: fail("readback-rejected", f"rejected ({err}), expected {show(want[1])}", j); return False
                got = observed(ev["v"])
                if got != want[1] or ev.get("k") != want[2]:
                    fail("readback-value", f"= {show(got)} <{ev.get('k')}>, expected {show(want[1])} <{want[2]}>", j); return False
            continue
        raise ValueError(kind)
    return ok_all

class _Scratch:
    def __init__(self): self.n = 0
    def fail(self, *a): self.n += 1

def negative_controls(chunk, built, outs, off, limit=60):
    """the comparison is not vacuous: a passing case judged against a deliberately wrong expectation (one token of the
    expected result / post-state changed, or the expectation class inverted) must be reported.  -> (tried, caught)"""
    import copy
    tried = caught = 0
    per = collections.Counter()
    for i, (cs, (stmts, checks), (resp, oc)) in enumerate(zip(chunk, built, outs)):
        if tried >= limit: break
        kind = (cs["C"]["c"], cs["op"], cs["exp"])
        if oc != "ok" or per[kind] >= 3 or cs["op"] in ("construct", "dup"): continue
        s0 = _Scratch()
        if not judge(s0, cs, off + i, stmts, checks, resp, oc, collections.Counter()) or s0.n: continue
        m = copy.deepcopy(cs)
        def bump(v): v["t"] = (1 - v["t"]) if v["k"] == "bool" else v["t"] + 1
        if cs["exp"] == "exact" and cs["op"] == "read": bump(m["res"]["rows"][-1][-1])
        elif cs["exp"] == "exact" and cs["op"] in ("write", "rowset"): bump(m["post"]["rows"][-1][0])
        elif cs["exp"] in ("reject", "absent"): m["exp"] = "exact"
        else: continue
        st2, ch2 = build(m, off + i)
        if st2 != stmts: continue
        per[kind] += 1; tried += 1
        s1 = _Scratch()
        judge(s1, m, off + i, st2, ch2, resp, oc, collections.Counter())
        if s1.n: caught += 1
    return tried, caught

def run(rep, tier, seed):
    quick = tier == "quick"
    cfg = "MC_G02_quick.cfg" if quick else "MC_G02_thorough.cfg"
    t = tlc.run("MC_G02", cfg, workers=16, timeout=3000)
    if t.violations or not t.ok:
        rep.fail("G02/model", "TLC reported a violation of a model-level law: " + "; ".join(t.errors[:3]), {"log": t.log})
    cases = t.cases
    cases.sort(key=lambda c: (c["sig"], str(c["C"]), c["mut"], str(c["src"]), c["row"]))
    log(f"[G02] TLC: {t.generated} states, {t.distinct} distinct, {len(cases)} cases in {t.wall:.1f}s")
    tally = collections.Counter(); nsess = 0; samples = []; passed = 0; neg_tried = neg_caught = 0
    CH = 20000
    for off in range(0, len(cases), CH):
        chunk = cases[off:off + CH]
        built = [build(cs, off + i) for i, cs in enumerate(chunk)]
        reqs = [{"id": i, "mode": "session", "stmts": b[0], "opts": {"store": True, "names": [VAR, ROWVAR]}} for i, b in enumerate(built)]
        outs = execpool.run_requests(reqs, nworkers=16, timeout=120)
        for i, (cs, (stmts, checks), (resp, oc)) in enumerate(zip(chunk, built, outs)):
            if judge(rep, cs, off + i, stmts, checks, resp, oc, tally): passed += 1
        nsess += len(chunk)
        if off == 0:
            neg_tried, neg_caught = negative_controls(chunk, built, outs, off)
            if neg_tried == 0 or neg_caught != neg_tried:
                rep.fail("G02/negative-control", f"only {neg_caught} of {neg_tried} deliberately wrong expectations were reported", {})
        step = max(1, len(chunk) // 6)
        samples += [{"sig": cs["sig"], "exp": cs["exp"], "stmts": b[0],
                     "observed": [(s.get("r"), s.get("k")) for s in (o[0] or {}).get("steps", [])] if o[1] == "ok" else o[1]}
                    for cs, b, o in list(zip(chunk, built, outs))[::step]]
        if not quick: log(f"  .. {nsess}/{len(cases)} sessions")
    fam = collections.Counter(f"{c['C']['c']}/{c['op']}" for c in cases)
    exps = collections.Counter(c["exp"] for c in cases)
    rep.cov.update({"states": t.generated, "transitions": max(t.generated - 1, 1), "distinct_states": t.distinct,
                    "traces_validated_against_impl": nsess, "cases_emitted": len(cases), "cases_replayed": nsess, "cases_passed": passed,
                    "cases_by_family": dict(fam), "cases_by_expectation": dict(exps),
                    "statements_checked": tally["statements"], "exact_matched": tally["exact"], "rejects_matched": tally["reject"],
                    "absent_matched": tally["absent"], "absent_as_error": tally["absent_as_error"], "absent_as_none": tally["absent_as_none"],
                    "free_outcomes": tally["free"], "free_accepted": tally["free_accepted"], "free_rejected": tally["free_rejected"],
                    "negative_controls_tried": neg_tried, "negative_controls_passed": neg_caught, "exhaustive": True,
                    "rule": "every container (record / tuple / map / table; component kinds from f64, string, bool, u8; sizes and key orders per "
                            "the cfg) x every scenario (construct + read every component; read one valid / invalid key on an immutable and a mutable "
                            "variable; update one valid / invalid key with a fresh / the same / another component's / another kind's value, tables: whole "
                            "column incl. too long / too short / scalar; immutable target; ~w := T[i]; w.f = v; literal with a repeated key); the whole "
                            "variable (value, kind string, mutability) is compared after every statement, also after a rejected one"})
    rep.add_samples(samples)
    rep.assumptions += ["TLC (tla2tools) exhaustive enumeration of spec/MC_G02.tla; laws of spec/MechStruct.tla as invariants",
                        "harness projection (harness/src/project.rs): record fields and table columns in insertion order with the declared kind of the slot",
                        "map values are compared as sets of (key, value) pairs (the documents give maps no order)",
                        "a map lookup of a key that is not there may raise an error or return none (map.mec says none; the tree raises UndefinedMapKey)",
                        "assignment of a whole table column (T.x = [..]) is not documented: acceptance is free, but an accepted one must be exact and a rejected one must change nothing",
                        "a literal that repeats a key is not documented: acceptance is free, bounded by MechStruct!DupOK",
                        "map keys of kind bool cannot be written as a literal ({true: 1} is a record with a field named true): key kinds are string, f64, u8"]
