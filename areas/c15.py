"""C15 — ranges: MechRange (TLA+) enumerates (form, kind class, start, step, end) and computes the arithmetic
progression; every case is replayed for the concrete kinds of its class with operands held in variables (and,
where the operands can be spelled exactly, also with the literals written in place)."""
import collections
from fractions import Fraction
import tlc, execpool, absval
from core import log

PROP = "C15"
CONCRETE = {"u8": ["u8"], "i8": ["i8"], "uw": ["u16", "u32", "u64", "u128"], "iw": ["i16", "i32", "i64", "i128"],
            "flt": ["f64", "f32"], "rat": ["r64"]}
P53 = 1 << 53
XDEF = "x := [11 12 13 14 15 16 17 18 19]"


def frac(q):
    return Fraction(q["n"], q["d"])


def tlit(kind, v):
    """typed literal of a small non-negative integer"""
    return f"{v}{kind}" if kind[0] == "u" else f"{v}<{kind}>"


def define(name, kind, f):
    """statement defining `name` as the exact value f of the kind (small values)"""
    f = Fraction(f)
    if kind[0] == "u": return f"{name} := {f.numerator}{kind}"
    if kind[0] == "i": return f"{name}<{kind}> := {f.numerator}"
    if kind == "f64": return f"{name} := {absval.lit_num('f64', abs(f)) if f >= 0 else '-' + absval.lit_num('f64', -f)}"
    if kind == "f32": return f"{name}<f32> := {float(f)!r}" if f.denominator != 1 else f"{name}<f32> := {f.numerator}"
    if kind == "r64": return f"{name} := {'-' if f < 0 else ''}{abs(f.numerator)}/{f.denominator}"
    raise ValueError(kind)


def inline(kind, f):
    """the operand written in place, or None when it has no exact spelling"""
    f = Fraction(f)
    if kind[0] == "u": return f"{f.numerator}{kind}"
    if kind[0] == "i":
        if f == absval.kind_min(kind): return None          # Min_k cannot be spelled (C13)
        return f"{f.numerator}<{kind}>"
    if kind == "f64": return ("-" if f < 0 else "") + absval.lit_num("f64", abs(f))
    if kind == "f32": return ("-" if f < 0 else "") + (str(abs(f.numerator)) if f.denominator == 1 else repr(float(abs(f)))) + "<f32>"
    if kind == "r64": return ("-" if f < 0 else "") + f"{abs(f.numerator)}/{f.denominator}"
    raise ValueError(kind)


def max_setup(kind):
    """statements defining M = Max_kind without going through a decimal typed literal beyond 2^53"""
    if kind == "u16": return ["M := 65535u16"]
    if kind == "i16": return ["M<i16> := 32767"]
    if kind == "u32": return ["M := 4294967295u32"]
    if kind == "i32": return ["M<i32> := 2147483647"]
    if kind == "u64": return ["m<u64> := 0x7FFFFFFFFFFFFFFF", "M := m + m + 1u64"]
    if kind == "i64": return ["M<i64> := 0x7FFFFFFFFFFFFFFF"]
    if kind == "u128": return ["h<u128> := 0x4000000000000000", "q := h * h * 4u128", "M := q - 1u128 + q + q + q"]
    if kind == "i128": return ["h<i128> := 0x4000000000000000", "q := h * h * 4<i128>", "M := q - 1<i128> + q"]
    raise ValueError(kind)


def operands(cs, kind):
    """-> (setup statements, {name: real value}, shift) for the case in the concrete kind"""
    a, s, b = frac(cs["a"]), frac(cs["s"]), frac(cs["b"])
    anc = cs["anc"]
    if anc == "none":
        st = [define("a", kind, a), define("b", kind, b)]
        if cs["step"]: st.append(define("s", kind, s))
        return st, {"a": a, "b": b, "s": s}, 0
    if anc == "max":
        top = 255 if kind[0] == "u" else 127
        shift = absval.kind_max(kind) - top
        st = max_setup(kind) + [f"a := M - {tlit(kind, int(top - a))}", f"b := M - {tlit(kind, int(top - b))}"]
    elif anc == "min":
        shift = absval.kind_min(kind) + 128
        st = max_setup(kind) + [f"N := {tlit(kind, 0)} - M - {tlit(kind, 1)}",
                                f"a := N + {tlit(kind, int(a + 128))}", f"b := N + {tlit(kind, int(b + 128))}"]
    elif anc == "p53":
        shift = P53 - 252
        st = [f"P<{kind}> := 0x20000000000000"]
        for nm, v in (("a", a), ("b", b)):
            st.append(f"{nm} := P + {tlit(kind, int(v - 252))}" if v >= 252 else f"{nm} := P - {tlit(kind, int(252 - v))}")
    else:
        raise ValueError(anc)
    if cs["step"]: st.append(define("s", kind, s))
    return st, {"a": a + shift, "b": b + shift, "s": s}, shift


def expr(cs, A="a", S="s", B="b"):
    op = "..=" if cs["incl"] else ".."
    return f"{A}..{S}{op}{B}" if cs["step"] else f"{A}{op}{B}"


def elements(v):
    """canonical value -> (kind, [Fractions]) for scalars / vectors / empties, else None"""
    t = v[0]
    if t == 'num': return v[1], [v[2]], "scalar"
    if t == 'empty': return None, [], "empty"
    if t == 'mat':
        r, c, d = v[2], v[3], v[4]
        if r * c == 0: return v[1], [], "empty"
        if r != 1 and c != 1: return v[1], None, f"{r}x{c}"
        if any(e[0] != 'num' for e in d): return v[1], None, "non-numeric"
        return v[1], [e[2] for e in d], ("row" if r == 1 else "col")
    return None, None, t


def short_els(xs):
    xs = [str(x) for x in xs]
    return "[" + " ".join(xs if len(xs) <= 8 else xs[:4] + ["..."] + xs[-3:]) + f"] ({len(xs)})"


def run(rep, tier, seed):
    cfg = "MC_C15_quick.cfg" if tier == "quick" else "MC_C15_thorough.cfg"
    t = tlc.run("MC_C15", cfg, workers=16, timeout=3000, xss="256m")     # the 256-element spans recurse deeply
    if t.violations or not t.ok:
        rep.fail("C15/model", "TLC reported a violation of a model-level law: " + "; ".join(t.errors[:3]), {"log": t.log})
    cases = t.cases
    cases.sort(key=lambda c: (c["sig"], c["cn"], c["anc"], c["a"]["n"], c["a"]["d"], c["b"]["n"], c["b"]["d"], c["s"]["n"], c["s"]["d"], c["incl"]))
    log(f"[C15] TLC: {t.generated} states, {len(cases)} cases in {t.wall:.1f}s")
    reqs = []; meta = []
    for n, cs in enumerate(cases):
        kinds = CONCRETE[cs["cn"]]
        if cs["anc"] == "p53": kinds = kinds[2:]                     # 64- and 128-bit kinds hold 2^53 +- k
        elif tier == "quick" and cs["anc"] == "none" and len(kinds) == 4:
            kinds = [kinds[n % 4]]                                   # quick: small values of the wide kinds in rotation
        elif tier == "quick" and cs["cn"] == "flt" and n % 2:
            kinds = ["f64"]
        for kind in kinds:
            setup, real, shift = operands(cs, kind)
            stmts = setup + [expr(cs)]
            inl = None
            if cs["anc"] == "none":
                parts = {nm: inline(kind, real[nm]) for nm in ("a", "s", "b")}
                if all(parts[nm] is not None for nm in (("a", "s", "b") if cs["step"] else ("a", "b"))):
                    inl = expr(cs, parts["a"], parts["s"], parts["b"])
                    stmts.append(inl)
            # the same range as an index (observe_at of the property): x[a..=b] selects x at the progression
            ix = None
            if cs["anc"] == "none" and cs["exp"] == "exact" and cs["count"] >= 2 and all(e["d"] == 1 and 1 <= e["n"] <= 9 for e in cs["els"]):
                setup = [XDEF] + setup
                ix = f"x[{expr(cs)}]"
                stmts = [XDEF] + stmts + [ix]
            reqs.append({"id": len(reqs), "mode": "session", "stmts": stmts,
                         "opts": {"store": True, "names": ["a", "s", "b"], "arm": True}})
            meta.append((cs, kind, len(setup), real, shift, inl, ix))
    log(f"[C15] replaying {len(reqs)} sessions on the interpreter")
    outs = execpool.run_requests(reqs, nworkers=16, timeout=120)
    tally = collections.Counter(); arms = set(); orient = collections.Counter()
    for req, (resp, oc), (cs, kind, nset, real, shift, inl, ix) in zip(reqs, outs, meta):
        sig = cs["sig"]
        if max(abs(real["a"]), abs(real["b"])) > P53:
            sig += "/beyond-2^53"                     # operand magnitudes an f64 cannot hold exactly (known at render time)
        replay = {"stmts": req["stmts"], "case": {k: v for k, v in cs.items() if k != "els"}, "kind": kind}
        if oc != "ok" or "steps" not in (resp or {}):
            rep.fail(sig + "/host-" + oc, f"{req['stmts']} -> interpreter process {oc}", replay); continue
        st = resp["steps"]
        # operands: built and holding exactly the intended values of the intended kind
        bad = None
        if any(x.get("r") != "ok" for x in st[:nset]):
            bad = "a setup statement failed: " + str([(s_, x.get("class")) for s_, x in zip(req["stmts"], st[:nset]) if x.get("r") != "ok"][:2])
        else:
            store = st[nset - 1].get("store", {})
            for nm in (("a", "s", "b") if cs["step"] else ("a", "b")):
                sv = store.get(nm)
                if sv is None or absval.absval(sv["v"]) != ('num', kind, real[nm]):
                    bad = f"{nm} holds {absval.short(absval.absval(sv['v'])) if sv else None}, intended {real[nm]}:{kind}"; break
        if bad:
            tally["unbuildable"] += 1
            rep.fail(f"C15/setup/{kind}", f"operands could not be built: {req['stmts'][:nset]}: {bad}", replay); continue
        want = [frac(e) + shift for e in cs["els"]]
        for which, ev, text in (("", st[nset], req["stmts"][nset]),) + ((("/inline", st[nset + 1], inl),) if inl else ()):
            is_code = ev.get("p") == "ok" and bool(ev.get("shape")) and ev["shape"][0].startswith("MechCode")
            if which and not (is_code and "Range" in ev["shape"][0]):
                tally["inline_not_a_range"] += 1; continue          # the in-place spelling is read as something else: not judged
            shown = f"{text} with a={real['a']}, " + (f"s={real['s']}, " if cs["step"] else "") + f"b={real['b']} ({kind})" if not which else text
            if not is_code:
                rep.fail(sig + "/noparse", f"`{text}` is not read as code: {ev.get('p')} {ev.get('shape')}", replay); continue
            arms.add(ev.get("arm"))
            ok = ev["r"] == "ok"
            exp = cs["exp"]
            if not ok:
                if exp == "exact" and cs["must"]:
                    rep.fail(sig + "/rejected", f"`{shown}` is rejected ({ev.get('class')}: {str(ev.get('msg'))[:60]}); it denotes {short_els(want)}", replay)
                elif exp == "none": tally["reject_ok"] += 1
                else: tally["free"] += 1
                continue
            got = absval.absval(ev["v"])
            gk, gels, how = elements(got)
            if gels is None:
                rep.fail(sig + "/not-a-vector", f"`{shown}` = {absval.short(got)[:120]} ({how})", replay); continue
            if exp == "none":
                if gels: rep.fail(sig + "/elements-returned", f"`{shown}` = {short_els(gels)} but denotes no progression ({cs['status']})", replay)
                else: tally["empty_ok"] += 1
                continue
            if gels != want:
                rep.fail(sig + "/wrong-elements", f"`{shown}` = {short_els(gels)}, expected {short_els(want)}", replay); continue
            if gk != kind:
                rep.fail(sig + "/wrong-kind", f"`{shown}` has element kind {gk}, the operands are {kind}", replay); continue
            orient[how] += 1
            tally["exact_ok" if exp == "exact" else "desc_ok"] += 1
        if ix:
            ev = st[-1]
            if ev.get("r") != "ok" or not (ev.get("shape") and ev["shape"][0].startswith("MechCode")):
                tally["index_free"] += 1                              # acceptance of an index form is C03's subject
            else:
                gk, gels, how = elements(absval.absval(ev["v"]))
                if gels != [w_ + 10 for w_ in want]:
                    rep.fail(sig + "/as-index/wrong-elements", f"{req['stmts']}: `{ix}` = {short_els(gels) if gels is not None else how}, expected {short_els([w_ + 10 for w_ in want])}", replay)
                else: tally["index_ok"] += 1
    rep.cov.update({"states": t.generated, "transitions": max(t.generated - 1, 1), "distinct_states": t.distinct,
                    "traces_validated_against_impl": len(reqs), "cases_emitted": len(cases), "cases_replayed": len(reqs),
                    "exact_matched": tally["exact_ok"], "descending_matched": tally["desc_ok"],
                    "rejects_matched": tally["reject_ok"], "empty_matched": tally["empty_ok"], "free_outcomes": tally["free"],
                    "inline_spelling_not_a_range": tally["inline_not_a_range"],
                    "as_index_matched": tally["index_ok"], "as_index_not_accepted": tally["index_free"], "unbuildable": tally["unbuildable"],
                    "result_orientation": dict(orient), "arms_hit": len(arms), "exhaustive": True,
                    "rule": "every (form, kind class, start, step, end) of the bounded MechRange model (pools with negative and fractional steps, "
                            "end off the grid, single-element, empty, wrong-order, zero-step; u8/i8 at their bounds; wide kinds anchored at Max_k, "
                            "Min_k and 2^53), replayed for the concrete kinds of the class with operands in variables and written in place; "
                            "elements, element kind and vector shape compared (row or column accepted: the documents disagree)"})
    rep.add_samples([{"stmts": r["stmts"], "exp": m[0]["exp"], "status": m[0]["status"], "count": m[0]["count"], "sig": m[0]["sig"]} for r, m in zip(reqs, meta)])
    rep.assumptions += ["TLC 2 (tla2tools)", "harness projection", "operand routes in areas/c15.py (typed literals below 2^53, hex literal + exact arithmetic for the bounds of 64/128-bit kinds); every operand is read back from the store before the range is judged",
                        "float steps that are not dyadic are outside the exact oracle (not generated)",
                        "orientation of the result vector is not fixed: reference/matrix.mec says column, specification.mec 1.1.2 says row"]
