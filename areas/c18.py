"""C18 — table joins and row selection: MechTable enumerated by TLC (pairs of tables over column layouts with 0-2
shared columns, duplicate keys, empty sides; row selections); every case is rendered with rotating column kinds
(u8/u64/f64/string/bool) and run on the real interpreter.  Join results are compared as bags of rows keyed by column
name, plus the set of column names, the column kinds and their optionality; selections are compared in order."""
import collections
from fractions import Fraction
import tlc, execpool, absval
from core import log

PROP = "C18"
KINDS5 = ["u8", "u64", "f64", "string", "bool"]
NAME_IX = {"k1": 0, "k2": 1, "a1": 2, "a2": 3, "a3": 4, "b1": 5, "b2": 6, "b3": 7}
MODES = ["inner", "left", "right", "full", "semi", "anti"]
SYM = {"inner": "⋈", "left": "⟕", "right": "⟖", "full": "⟗", "semi": "⋉", "anti": "▷"}
WORD = {"inner": "table/join", "left": "table/left-outer-join", "right": "table/right-outer-join",
        "full": "table/full-outer-join", "semi": "table/left-semi-join", "anti": "table/left-anti-join"}

def cell_text(kind, v):
    if kind in ("u8", "u64"): return str(v)
    if kind == "f64": return f"{v}.5"
    if kind == "string": return '"p"' if v == 1 else '"q"'
    if kind == "bool": return "true" if v == 1 else "false"
    raise ValueError(kind)

def cell_value(kind, v):
    if v == 0: return ('empty',)
    if kind in ("u8", "u64"): return ('num', kind, Fraction(v))
    if kind == "f64": return ('num', kind, Fraction(2 * v + 1, 2))
    if kind == "string": return ('str', "p" if v == 1 else "q")
    if kind == "bool": return ('bool', v == 1)
    raise ValueError(kind)

def kinds_for(n, names, rot):
    """column name -> kind; rotates with the case number so that every kind meets every column role"""
    return {nm: KINDS5[(n + rot + (NAME_IX[nm] * (1 + rot)) ) % 5] for nm in names}

def table_literal(t, kinds, rows=None):
    rows = t["rows"] if rows is None else rows
    head = " ".join(f"{c}<{kinds[c]}>" for c in t["cols"])
    body = " | ".join(" ".join(cell_text(kinds[c], v) for c, v in zip(t["cols"], r)) for r in rows)
    return f"|{head}| {body} |"

def define_table(name, t, kinds):
    """statements defining `name`; a zero-row table is the anti-join of a one-row table with itself
    (a header-only table literal does not parse)"""
    if t["rows"]:
        return [f"{name} := {table_literal(t, kinds)}"]
    return [f"{name}0 := {table_literal(t, kinds, [[1] * len(t['cols'])])}", f"{name} := {name}0 ▷ {name}0"]

def rows_of(got):
    """list of rows, each a dict name -> value"""
    cols = got[2]
    n = got[1]
    return [{c[0]: c[2][i] for c in cols} for i in range(n)]

def short_row(r): return "(" + ", ".join(f"{k}={absval.short(v) if v[0] != 'empty' else '_'}" for k, v in sorted(r.items())) + ")"

def check_table(ev, exp_cols, exp_kinds, exp_rows, ordered):
    """exp_rows: list of dict name->canonical value.  -> None | (class, text)"""
    got = absval.absval(ev["v"])
    if got[0] != 'tbl':
        return ("not-a-table", f"is {absval.short(got)}")
    names = [c[0] for c in got[2]]
    if sorted(names) != sorted(exp_cols):
        return ("columns", f"has columns {names}, expected {exp_cols}")
    if any(len(c[2]) != got[1] for c in got[2]):
        return ("row-count", f"reports {got[1]} rows but columns hold {[len(c[2]) for c in got[2]]} values")
    rows = rows_of(got)
    if ordered:
        if rows != exp_rows:
            return ("rows", f"= {[short_row(r) for r in rows]}, expected in this order {[short_row(r) for r in exp_rows]}")
    else:
        key = lambda r: frozenset(r.items())
        gb = collections.Counter(key(r) for r in rows); eb = collections.Counter(key(r) for r in exp_rows)
        if gb != eb:
            cls = "multiplicity" if set(gb) == set(eb) else "rows"
            return (cls, f"= {len(rows)} row(s) {sorted(short_row(r) for r in rows)}, expected {len(exp_rows)} row(s) {sorted(short_row(r) for r in exp_rows)}")
    for c in got[2]:
        if c[1] != exp_kinds[c[0]]:
            return ("kind", f"column {c[0]} has kind {c[1]}, expected {exp_kinds[c[0]]}")
    return None

def build_join(cs, n, rot, both_forms):
    L, R = cs["L"], cs["R"]
    names = sorted(set(L["cols"]) | set(R["cols"]))
    kinds = kinds_for(n, names, rot)
    stmts = []; checks = []
    for nm, t in (("L", L), ("R", R)):
        for s in define_table(nm, t, kinds):
            stmts.append(s); checks.append(("setup",))
        # the operand itself must read back as written (checks the zero-row construction too)
        checks[-1] = ("table", t["cols"], {c: kinds[c] for c in t["cols"]},
                      [{c: cell_value(kinds[c], v) for c, v in zip(t["cols"], r)} for r in t["rows"]], True, "operand")
    for j, mode in enumerate(MODES):
        res = cs["res"][mode]
        ek = {c: kinds[c] + ("?" if c in res["opt"] else "") for c in res["cols"]}
        er = [{c: cell_value(kinds[c], v) for c, v in zip(res["cols"], r)} for r in res["rows"]]
        forms = ["sym", "word"] if both_forms else [("sym", "word")[(n + j) % 2]]
        for f in forms:
            text = f"L {SYM[mode]} R" if f == "sym" else f"{WORD[mode]}(L, R)"
            stmts.append(text); checks.append(("table", res["cols"], ek, er, False, SYM[mode] if f == "sym" else WORD[mode]))
    return stmts, checks, kinds

def build_sel(cs, n, rot):
    T = cs["L"]; f = cs["f"]
    kinds = kinds_for(n, T["cols"], rot)
    typed = (n + rot) % 2 == 1
    ix = lambda i: f"{i}u8" if typed and i >= 0 else str(i)
    stmts = define_table("T", T, kinds); checks = [("setup",)] * len(stmts)
    if f["f"] == "s": idx = ix(f["ix"][0])
    elif f["f"] == "v": idx = "[" + " ".join(ix(i) for i in f["ix"]) + "]"
    elif f["f"] == "r":
        a, b = f["ix"][0], f["ix"][-1]
        idx = f"{a}..={b}" if (n + rot) % 2 == 0 else f"{a}..{b + 1}"
    else: idx = "[" + " ".join("true" if b else "false" for b in f["mask"]) + "]"
    ek = {c: kinds[c] for c in T["cols"]}
    er = [{c: cell_value(kinds[c], v) for c, v in zip(T["cols"], r)} for r in cs["rows"]]
    stmts.append(f"T[{idx}]")
    checks.append(("select", T["cols"], ek, er, cs["exp"], f["f"]))
    return stmts, checks, kinds

def judge(rep, cs, stmts, checks, kinds, resp, oc, tally, arms):
    base = cs["sig"]
    replay = {"stmts": stmts, "kinds": kinds, "case": {k: cs[k] for k in ("fam", "L", "R", "f") if k in cs}}
    if oc != "ok" or "steps" not in (resp or {}):
        rep.fail(f"{base}/host-{oc}", f"{stmts} -> interpreter process {oc}", replay); return
    ndef = sum(1 for c in checks if c[0] == "setup" or (c[0] == "table" and c[5] == "operand"))
    setup_ok = True
    for text, chk, ev in zip(stmts, checks, resp["steps"]):
        tally["statements"] += 1
        parsed = ev.get("p") == "ok" and ev.get("shape") and ev["shape"][0].startswith("MechCode")
        if chk[0] == "setup" or (chk[0] == "table" and chk[5] == "operand"):
            bad = None
            if not parsed or ev.get("r") != "ok": bad = f"{ev.get('p')} {ev.get('class')} {ev.get('msg')}"
            elif chk[0] == "table":
                b = check_table(ev, chk[1], chk[2], chk[3], True)
                if b: bad = b[1]
            if bad:
                setup_ok = False; tally["unbuildable"] += 1
                rep.fail("C18/setup/" + ("empty-operand" if "▷" in text else "literal"), f"operand could not be built: {text} -> {bad}", replay)
            continue
        if not setup_ok: continue
        if chk[0] == "table":
            label = chk[5]
            sig = f"C18/{label}/shared={cs['shared']}"
            what = f"{stmts[:ndef]}  {text} "
            if not parsed:
                rep.fail(sig + "/noparse", what + f"did not parse as code: {ev.get('p')} {ev.get('shape')}", replay); continue
            arms.add(ev.get("arm"))
            if ev.get("r") != "ok":
                rep.fail(sig + "/rejected", what + f"rejected ({ev.get('class')}: {ev.get('msg')})", replay); continue
            bad = check_table(ev, chk[1], chk[2], chk[3], False)
            if bad: rep.fail(sig + "/" + bad[0], what + bad[1], dict(replay, failing=text))
            else: tally["exact"] += 1
        elif chk[0] == "select":
            _, cols, ek, er, exp, form = chk
            sig = f"C18/select/{form}"
            what = f"{stmts[:ndef]}  {text} "
            if not parsed:
                rep.fail(sig + "/noparse", what + f"did not parse as code: {ev.get('p')} {ev.get('shape')}", replay); continue
            arms.add(ev.get("arm"))
            ok = ev.get("r") == "ok"
            if exp == "reject":
                if ok: rep.fail(sig + "/accepts-out-of-range", what + f"returned {absval.short(absval.absval(ev['v']))} but addresses a row that does not exist", replay)
                else: tally["reject"] += 1
                continue
            if not ok:
                if exp == "exact": rep.fail(sig + "/rejected", what + f"rejected ({ev.get('class')}: {ev.get('msg')})", replay)
                else: tally["free"] += 1
                continue
            got = absval.absval(ev["v"])
            if form == "s":
                # a single index returns the row as a record
                if got[0] != 'rec':
                    rep.fail(sig + "/not-a-record", what + f"is {absval.short(got)}", replay); continue
                row = {f[0]: f[2] for f in got[1]}
                fk = {f[0]: f[1] for f in got[1]}
                if row != er[0]:
                    rep.fail(sig + "/rows", what + f"= {short_row(row)}, expected {short_row(er[0])}", replay)
                elif fk != ek:
                    rep.fail(sig + "/kind", what + f"has field kinds {fk}, expected {ek}", replay)
                else: tally["exact"] += 1
            else:
                bad = check_table(ev, cols, ek, er, True)
                if bad: rep.fail(sig + "/" + bad[0], what + bad[1], replay)
                else: tally["exact" if exp == "exact" else "free"] += 1

def run(rep, tier, seed):
    quick = tier == "quick"
    cfg = "MC_C18_quick.cfg" if quick else "MC_C18_thorough.cfg"
    t = tlc.run("MC_C18", cfg, workers=16, timeout=3000)
    if t.violations or not t.ok:
        rep.fail("C18/model", "TLC reported a violation of a model-level law: " + "; ".join(t.errors[:3]), {"log": t.log})
    cases = t.cases
    cases.sort(key=lambda c: (c["fam"], str(c["L"]), str(c.get("R")), str(c.get("f"))))
    log(f"[C18] TLC: {t.generated} states, {t.distinct} distinct, {len(cases)} cases in {t.wall:.1f}s")
    plan = []
    for n, cs in enumerate(cases):
        if cs["fam"] == "sel":
            for rot in range(5): plan.append((cs, n, rot))
        elif cs["fam"] == "big":
            for rot in range(3): plan.append((cs, n, rot))
        else:
            plan.append((cs, n, 0))
    log(f"[C18] replaying {len(plan)} sessions on the interpreter")
    tally = collections.Counter(); arms = set(); samples = []; nsess = 0
    CH = 20000
    for off in range(0, len(plan), CH):
        chunk = plan[off:off + CH]
        built = []
        for cs, n, rot in chunk:
            if cs["fam"] == "sel": built.append(build_sel(cs, n, rot))
            else: built.append(build_join(cs, n, rot, cs["fam"] == "big"))
        reqs = [{"id": i, "mode": "session", "stmts": b[0], "opts": {"arm": True}} for i, b in enumerate(built)]
        outs = execpool.run_requests(reqs, nworkers=16, timeout=120)
        for (cs, n, rot), (stmts, checks, kinds), (resp, oc) in zip(chunk, built, outs):
            judge(rep, cs, stmts, checks, kinds, resp, oc, tally, arms)
        nsess += len(chunk)
        if off == 0 or off + CH >= len(plan):
            samples += [{"fam": c[0]["fam"], "sig": c[0]["sig"], "stmts": b[0]} for c, b in list(zip(chunk, built))[:: max(1, len(chunk) // 5)]]
        if not quick: log(f"  .. {nsess}/{len(plan)} sessions")
    fam = collections.Counter(c["fam"] for c in cases)
    rep.cov.update({"states": t.generated, "transitions": max(t.generated - 1, 1), "distinct_states": t.distinct,
                    "traces_validated_against_impl": nsess, "cases_emitted": len(cases), "cases_by_family": dict(fam),
                    "cases_replayed": nsess, "statements_checked": tally["statements"], "exact_matched": tally["exact"],
                    "rejects_matched": tally["reject"], "free_outcomes": tally["free"], "unbuildable": tally["unbuildable"],
                    "arms_hit": len(arms), "exhaustive": True,
                    "rule": "every pair of tables over every column layout (1..MaxCols columns per side, 0-2 shared by name at "
                            "different positions), 0..MaxRows rows of values from {1,2}, all six joins, symbol and word form alternating "
                            "with the case number (both forms for the sampled family), column kinds rotating over u8/u64/f64/string/bool; results compared "
                            "as bags of name->value rows + column set + kinds/optionality; zero-row operands built as T ▷ T; "
                            "row selection by index, index vector, range and mask over tables of 1..SelRows rows, in order"})
    rep.add_samples(samples)
    rep.assumptions += ["TLC (tla2tools) exhaustive enumeration of spec/MC_C18.tla", "harness projection (harness/src/project.rs)",
                        "no shared column => inner/outer joins are the cross product (observed and documented behaviour, modelled as such)",
                        "optionality is decided by the operator (right-only columns under left/full outer join, left-only columns under "
                        "right/full outer join), not by the data", "column order of the result is not compared (the property does not fix it)",
                        "a header-only table literal does not parse: zero-row operands are T ▷ T"]
