"""G06 (growth area) — MechOutline: the document structure the Mechdown parser builds (title, sections split at section subtitles,
elements in order, consecutive code lines / lists merged into one element, the table of contents).

spec/MechOutline.tla gives the element list twice (declaratively by run boundaries, and as the parser's fold), the section split and
the table of contents; spec/MC_G06.tla enumerates every document of up to 4 (quick) / 6 (thorough) blocks over title, section
subtitle, two subtitle levels, paragraph, code line, list, quote block; TLC checks that the definitions agree and that nothing is
lost, duplicated or reordered, then emits every document with its expected structure.  Every document is rendered to Mechdown text
(each block carries its position in its text), parsed by the REAL parser, and the tree is projected back to block ids: title,
sections, subtitles with their levels, elements with the ids of the blocks they were made from (statements of a code element, items
of a list) must equal the model's structure; Program::table_of_contents is checked through the same projection."""
import collections, re
import tlc, execpool
from core import log

PROP = "G06"

def render(doc):
    out = []; sec = 0; sub = 0; subsub = 0; text = ""
    for b in doc:
        k, i = b["k"], b["id"]
        if out: text += out[-1] + ("\n" if b.get("tight") else "\n\n")
        if k == "T": out.append(f"Document B{i}\n" + "=" * 12)
        elif k == "H2":
            sec += 1; sub = 0; subsub = 0
            out.append(f"{sec}. Section B{i}\n" + "-" * 14)
        elif k == "H3":
            sub += 1; subsub = 0
            out.append(f"({max(sec, 1)}.{sub}) Sub B{i}")
        elif k == "H4":
            subsub += 1
            out.append(f"({max(sec, 1)}.{max(sub, 1)}.{subsub}) Subsub B{i}")
        elif k == "P": out.append(f"Paragraph B{i} has some text.")
        elif k == "C": out.append(f"v{i} := {i}")
        elif k == "L": out.append(f"- item B{i}\n- another B{i}")
        elif k == "Q": out.append(f"> quoted B{i}")
        elif k == "I": out.append(f"(i)> info B{i}")
        elif k == "F": out.append(f"```mech\nv{i} := {i}\n```")
    return text + (out[-1] if out else "") + "\n"

def ids_in(j):
    """block ids mentioned anywhere in a (sub)tree, in document order"""
    s = []
    def walk(x):
        if isinstance(x, dict):
            if set(x.keys()) == {"T"} and isinstance(x["T"], str):
                s.extend(int(m) for m in re.findall(r"B(\d+)", x["T"]))
                s.extend(int(m) for m in re.findall(r"^v(\d+)$", x["T"]))
            else:
                for v in x.values(): walk(v)
        elif isinstance(x, list):
            for v in x: walk(v)
    walk(j)
    return s

def dedup(seq):
    out = []
    for x in seq:
        if not out or out[-1] != x: out.append(x)
    return out

KIND_OF = {"Paragraph": "P", "MechCode": "C", "List": "L", "QuoteBlock": "Q", "InfoBlock": "I", "FencedMechCode": "F"}

def project(tree):
    """erased serde tree -> (has title, title ids, [(subtitle id or 0, [(kind, ids)])])"""
    title = tree.get("title")
    tid = ids_in(title) if title else []
    secs = []
    for s in tree["body"]["sections"]:
        sub = s.get("subtitle")
        sid = 0
        if sub:
            got = ids_in(sub); sid = got[0] if got else -1
            if sub.get("level") != 2: sid = -2
        els = []
        for e in s["elements"]:
            if isinstance(e, str): els.append((e, [])); continue
            (name, val), = e.items()
            if name == "Subtitle":
                els.append(("H3" if val.get("level") == 3 else "H4" if val.get("level") == 4 else f"H{val.get('level')}", dedup(ids_in(val))))
            else:
                els.append((KIND_OF.get(name, name), dedup(ids_in(val))))
        secs.append((sid, els))
    return (title is not None, tid, secs)

def run(rep, tier, seed):
    cfg = "MC_G06_quick.cfg" if tier == "quick" else "MC_G06_thorough.cfg"
    t = tlc.run("MC_G06", cfg, workers=8, timeout=3000)
    if t.violations or not t.ok:
        rep.fail("G06/model", "TLC reported a violation on MechOutline: " + "; ".join(t.errors[:3]), {"log": t.log})
    cases = t.cases
    cap = 60000
    if len(cases) > cap:
        import random
        cases = random.Random(seed).sample(cases, cap)
    log(f"[G06] TLC: {t.generated} states, {len(t.cases)} documents ({len(cases)} replayed) in {t.wall:.1f}s")
    reqs = [{"id": i, "mode": "parse", "text": render(cs["doc"]), "tree": True} for i, cs in enumerate(cases)]
    outs = execpool.run_requests(reqs, nworkers=16, timeout=300)
    tally = collections.Counter()
    for cs, req, (resp, oc) in zip(cases, reqs, outs):
        pat = "".join(("~" if b.get("tight") else ("," if n else "")) + b["k"] for n, b in enumerate(cs["doc"]))
        replay = {"text": req["text"], "doc": pat}
        if oc != "ok" or not resp or "outcome" not in resp:
            rep.fail(f"G06/host-{oc}", f"{pat}: parser process {oc}", replay); continue
        if resp["outcome"] != "tree":
            rep.fail(f"G06/{resp['outcome']}", f"{pat}: the well-formed document {req['text']!r} gives {resp['outcome']}", replay); continue
        has_title, tid, secs = project(resp["tree"])
        want_secs = [(s["sub"], [(e["k"], list(e["ids"])) for e in s["els"]]) for s in cs["secs"]]
        if has_title != cs["title"] or (cs["title"] and tid != [1]):
            rep.fail("G06/title", f"{pat}: title present {has_title} (ids {tid}), model {cs['title']}", replay); continue
        if [s[0] for s in secs] != [s[0] for s in want_secs]:
            rep.fail("G06/sections", f"{pat}: sections start at subtitles {[s[0] for s in secs]}, model {[s[0] for s in want_secs]}", replay); continue
        bad = False
        for n, ((_, els), (_, wels)) in enumerate(zip(secs, want_secs)):
            if [e[0] for e in els] != [e[0] for e in wels]:
                kinds = sorted(set(e[0] for e in wels) | set(e[0] for e in els))
                rep.fail("G06/elements/kinds", f"{pat}: section {n + 1} holds {[e[0] for e in els]}, model {[e[0] for e in wels]}", replay); bad = True; break
            if els != wels:
                k = next(e[0] for e, w in zip(els, wels) if e != w)
                rep.fail(f"G06/elements/content/{k}", f"{pat}: section {n + 1} elements {els}, model {wels}", replay); bad = True; break
        if bad: continue
        # table of contents through the same projection: sections with a subtitle and their Subtitle elements
        toc = [(sid, [(k, ids) for k, ids in els if k in ("H3", "H4")]) for sid, els in secs if sid != 0]
        want_toc = [(x["sub"], [(e["k"], list(e["ids"])) for e in x["subs"]]) for x in cs["toc"]]
        if toc != want_toc:
            rep.fail("G06/toc", f"{pat}: table of contents {toc}, model {want_toc}", replay); continue
        tally["ok"] += 1
    # negative controls: the comparison must notice a structure that differs in one place (vacuity guard)
    neg_tried = neg_caught = 0
    for cs, req, (resp, oc) in list(zip(cases, reqs, outs))[:: max(1, len(cases) // 40)]:
        if oc != "ok" or not resp or resp.get("outcome") != "tree" or len(cs["doc"]) < 2: continue
        has_title, tid, secs = project(resp["tree"])
        want = [(s_["sub"], [(e["k"], list(e["ids"])) for e in s_["els"]]) for s_ in cs["secs"]]
        flat = [(n, m) for n, (_, els) in enumerate(want) for m in range(len(els))]
        if not flat: continue
        n, m = flat[-1]
        k, ids = want[n][1][m]
        want[n][1][m] = (k, ids + [99])                       # an element that claims one more block
        neg_tried += 1
        if [(sid, els) for sid, els in secs] != want: neg_caught += 1
    if neg_tried and neg_caught != neg_tried:
        raise tlc.TlcError(f"negative control failed: {neg_tried - neg_caught} corrupted structures were accepted")
    rep.cov.update({"negative_controls_tried": neg_tried, "negative_controls_passed": neg_caught})
    rep.cov.update({"states": t.generated, "distinct_states": t.distinct, "transitions": t.generated, "documents_emitted": len(t.cases),
                    "traces_validated_against_impl": len(cases), "documents_fully_matched": tally["ok"], "exhaustive": len(cases) == len(t.cases),
                    "rule": "every document of MC_G06 (block sequences over title, section subtitle, two subtitle levels, paragraph, code line, list, quote) "
                            "rendered to Mechdown, parsed by the real parser, tree projected to block ids: title, section split, element kinds, "
                            "the blocks each element was made from (merged code lines / list items in order), subtitle levels, table of contents"})
    rep.add_samples([{"text": r["text"]} for r in reqs[:2000:250]])
    return len(reqs)
