"""C13 — numeric literals: MechLiteral (TLA+) enumerates abstract literal tokens and their exact denotation;
every literal is rendered to its spelling, evaluated alone on the real interpreter and compared:
integers / based / suffixed exactly, rationals as reduced fractions, floats exactly when the denotation is
representable and otherwise as the nearest float of the kind (decided here with exact Fractions)."""
import collections, math, struct, json
from fractions import Fraction
import tlc, execpool, absval
from core import log

PROP = "C13"
HEXL = "0123456789abcdef"
PREFIX = {16: "0x", 8: "0o", 2: "0b", 10: "0d"}
P53 = 1 << 53


def _seq(x):
    """TLC's Json writes the empty sequence as [] (or {}): normalise to a list"""
    return list(x) if isinstance(x, list) else []


def toks(ts, uc=False):
    a = HEXL.upper() if uc else HEXL
    return "".join("_" if t == 16 else a[t] for t in _seq(ts))


def anchor(kind, anc):
    if anc == "max": return absval.kind_max(kind)
    if anc == "min": return absval.kind_min(kind)
    if anc == "p53": return P53
    if anc == "n53": return -P53
    raise ValueError(anc)


def big_value(l, kind):
    return anchor(kind, l["anc"]) + l["off"]


def spelling(l, kind):
    """abstract literal -> source text"""
    f = l["form"]
    if f == "big":
        v = abs(big_value(l, kind))
        body = (PREFIX[l["base"]] if l["pfx"] else "") + (format(v, "x") if l["base"] == 16 else str(v))
    elif f == "int":
        body = toks(l["w"])
    elif f == "flt":
        body = toks(l["w"]) + "." + toks(l["f"])
    elif f == "sci":
        body = toks(l["w"]) + ("." + toks(l["f"]) if l["hasf"] else "")
        body += l["ec"] + {0: "", 1: "+", 2: "-", 3: "+-"}[l["es"]] + toks(l["e"]) + (".0" if l["ef"] else "")
    elif f == "bas":
        body = PREFIX[l["base"]] + toks(l["w"], l["uc"])
    elif f == "rat":
        body = toks(l["w"]) + "/" + toks(l["q"])
    elif f == "cpx":
        im = toks(l["q"]) + ("." + toks(l["qf"]) if l["hasqf"] else "")
        if l["hasre"]:
            re = toks(l["w"]) + ("." + toks(l["f"]) if l["hasf"] else "")
            body = re + ("+" if l["isg"] == 1 else "-") + im + l["unit"]
        else:
            body = im + l["unit"]
    else:
        raise ValueError(f)
    s = ("-" if l["neg"] else "") + body
    if l["ann"] == "sfx": s += l["kind"]
    elif l["ann"] == "ann": s += "<" + l["kind"] + ">"
    return s


# ------------------------------------------------------------------ nearest-float relation (exact)

def _f32_bits(x):
    return struct.unpack(">I", struct.pack(">f", x))[0]

def _f32_from(b):
    return struct.unpack(">f", struct.pack(">I", b))[0]

def f32_neighbours(x):
    """the two f32 values adjacent to the f32 value x (as Python floats)"""
    if x == 0.0:
        t = _f32_from(1); return -t, t
    b = _f32_bits(x)
    up, dn = _f32_from(b + 1), (_f32_from(b - 1) if (b & 0x7FFFFFFF) != 0 else -_f32_from(1))
    return (dn, up) if x > 0 else (up, dn)

def is_nearest(kind, got, q):
    """got: Fraction value of a float of `kind`; q: exact rational.  True iff no neighbouring float is closer."""
    x = float(got)
    if kind == "f32":
        lo, hi = f32_neighbours(x)
    else:
        lo, hi = math.nextafter(x, -math.inf), math.nextafter(x, math.inf)
    err = abs(got - q)
    for nb in (lo, hi):
        if math.isinf(nb): continue
        if abs(Fraction(nb) - q) < err: return False
    return True

def representable(kind, q):
    try:
        x = float(q)
    except OverflowError:
        return False
    if kind == "f32":
        try: x = _f32_from(_f32_bits(x))
        except OverflowError: return False
    return Fraction(x) == q


def norm(v):
    if v[0] == 'flt' and v[2] == '-0': return ('num', v[1], Fraction(0))
    return v


def judge_real(exp, kind, want, want2, got, check_kind):
    """-> None if fine, else a short reason"""
    got = norm(got)
    if got[0] != 'num':
        return f"returned {absval.short(got) if got[0] in ('flt',) else got[0]}"
    if check_kind and got[1] != kind:
        return f"kind {got[1]} instead of {kind}"
    x = got[2]
    if exp == "exact":
        if kind in ("f32", "f64") and not representable(kind, want):
            exp = "nearest"                          # (cannot happen for model-exact values; belt and braces)
        elif x != want: return f"value {absval.short(got)}"
        else: return None
    if exp == "nearest":
        if got[1] not in ("f32", "f64"): return f"kind {got[1]}"
        if not is_nearest(got[1], x, want): return f"value {float(x)!r} is not the {got[1]} nearest to {want}"
        return None
    if exp == "clamp":
        return None if x == want else f"value {absval.short(got)} (neither an error nor the bound {want})"
    if exp == "nearint":
        return None if x in (want, want2) else f"value {absval.short(got)} (not adjacent to the denoted fraction)"
    return f"unexpected expectation {exp}"


# ------------------------------------------------------------------ float literals with long digit strings (MechLiteral + MechFloat)
def long_float_family(rep, tier, seed):
    """decimal float spellings of 15..22 significant digits: the denotation is MechLiteral's (digits / 10^#fraction digits, the same
    Horner fold, here over unbounded integers); "floats to the nearest representable value" is MechFloat.RoundA at binary64
    (lib/ieee.py, validated against TLC's cases in C01). Above 2^53 the digit string itself is not representable, so any
    evaluation that goes through an intermediate integer / float conversion rounds twice."""
    import random, ieee
    rnd = random.Random(seed * 7 + 13)
    special = ["9999999999999999999999", "2718281828459045235360", "3141592653589793238462", "9007199254740993000000", "1000000000000000000001",
               "1234567890123456789012", "5000000000000000000000", "4503599627370497500000", "1797693134862315708145", "2225073858507201383090"]
    cases = []
    for D in range(15, 23):
        pool = [x[:D] for x in special] + ["".join(rnd.choice("0123456789") for _ in range(D)) for _ in range(6 if tier == "quick" else 40)]
        pool = [("1" + x[1:]) if x[0] == "0" else x for x in pool]
        for digs in pool:
            for p in sorted({0, 1, 2, D // 2, D - 1}):
                w, f = digs[:p], digs[p:]
                if not f: continue
                for variant in ("plain", "neg", "ann", "us"):
                    body = (w if w else ("" if variant != "us" else "0")) + "." + f
                    if variant == "us" and len(w) > 3: body = w[:-3] + "_" + w[-3:] + "." + f
                    text = {"plain": body, "neg": "-" + body, "ann": body + "<f64>", "us": body}[variant]
                    q = Fraction(int(digs), 10 ** len(f))
                    cases.append((D, "leading-dot" if not w and variant != "us" else variant, text, -q if variant == "neg" else q))
    reqs = [{"id": i, "mode": "session", "stmts": [c[2]], "opts": {}} for i, c in enumerate(cases)]
    outs = execpool.run_requests(reqs, nworkers=16, timeout=120)
    ok_n = 0
    for (D, variant, text, q), (resp, oc) in zip(cases, outs):
        sig = f"C13/flt/long/{variant}"
        replay = {"stmts": [text], "denotes": str(q)}
        if oc != "ok" or "steps" not in (resp or {}):
            rep.fail(sig + "/host-" + oc, f"`{text}` -> interpreter process {oc}", replay); continue
        ev = resp["steps"][0]
        if not (ev.get("p") == "ok" and ev.get("shape") and ev["shape"][0].startswith("MechCode")):
            rep.fail(sig + "/noparse", f"`{text}` is not read as code ({ev.get('p')} {ev.get('shape')})", replay); continue
        if ev.get("r") != "ok":
            rep.fail(sig + "/rejected", f"`{text}` is rejected ({ev.get('class')}) but denotes {q}", replay); continue
        got = absval.absval(ev["v"])
        want = ieee.round_a(ieee.BINARY64, q)
        if got != ('num', 'f64', want):
            far = got[0] != 'num' or abs(got[2] - q) / abs(q) >= Fraction(1, 2 ** 44)
            rep.fail(sig + ("/wrong-value" if far else "/misrounded"), f"`{text}` = {absval.short(got)} ({float(got[2])!r}), the nearest f64 to the {D}-digit spelling is {float(want)!r}" if got[0] == 'num' else f"`{text}` = {absval.short(got)}", replay)
        else: ok_n += 1
    log(f"[C13] long float literals: {ok_n}/{len(cases)} evaluate to the nearest f64 of their 15..22-digit spelling")
    rep.cov.update({"long_float_literals": len(cases), "long_float_literals_nearest": ok_n})
    return len(cases)

# ------------------------------------------------------------------ scientific literals with a half-integer exponent (MC_C13h)
def half_exponent_family(rep, tier, seed):
    """`m e [+|-|+-] k.5`: the value is irrational; MechLiteral.HalfExpSquare states the rational its SQUARE equals.  The observed
    f64 is judged with exact fractions: |v^2 - sq| / sq below 2^-44 (two roundings of a correctly scaled value stay far below that;
    a wrong sign, a wrong exponent part or a dropped mantissa is off by a factor)."""
    t = tlc.run("MC_C13h", "MC_C13h.cfg", workers=4, timeout=600)
    if t.violations or not t.ok:
        rep.fail("C13/model", "TLC reported a violation of the half-exponent laws: " + "; ".join(t.errors[:3]), {"log": t.log})
    cases = sorted(t.cases, key=lambda c: json.dumps(c, sort_keys=True))
    def text(c, variant):
        w = "".join(str(d) for d in _seq(c["w"])); f = "".join(str(d) for d in _seq(c["f"]))
        body = w + "." + f + ("E" if c["cap"] else "e") + {0: "", 1: "+", 2: "-", 3: "+-"}[c["es"]] + str(c["k"]) + ".5"
        return {"plain": body, "neg": "-" + body, "ann": body + "<f64>", "mat": "[" + body + " 1.0]", "expr": "1.0 * " + body, "def": "zz := " + body}[variant]
    items = [(c, v) for c in cases for v in ("plain", "neg", "ann", "mat", "expr", "def")]
    reqs = [{"id": i, "mode": "session", "stmts": [text(c, v)], "opts": {}} for i, (c, v) in enumerate(items)]
    outs = execpool.run_requests(reqs, nworkers=16, timeout=120)
    ok_n = 0
    for (c, v), req, (resp, oc) in zip(items, reqs, outs):
        tx = req["stmts"][0]
        sq = Fraction(c["sq"]["n"], c["sq"]["d"])
        sig = f"C13/sci/half-exponent/{ {0: 'plain', 1: 'plus', 2: 'minus', 3: 'plusminus'}[c['es']] }"
        replay = {"stmts": [tx], "square_denotes": str(sq)}
        if oc != "ok" or "steps" not in (resp or {}):
            rep.fail(sig + "/host-" + oc, f"`{tx}` -> interpreter process {oc}", replay); continue
        ev = resp["steps"][0]
        if not (ev.get("p") == "ok" and ev.get("shape") and ev["shape"][0].startswith("MechCode")) or ev.get("r") != "ok":
            # whether the grammar's fractional exponents are accepted in every context is not what C13 states ("accepted by the grammar")
            continue
        got = absval.absval(ev["v"])
        if got[0] == 'mat': got = got[4][0]
        if got[0] != 'num':
            rep.fail(sig + "/wrong-value", f"`{tx}` = {absval.short(got)}", replay); continue
        val = got[2]
        if (v == "neg") != (val < 0) or abs(val * val - sq) / sq >= Fraction(1, 2 ** 44):
            rep.fail(sig + "/wrong-value", f"`{tx}` = {float(val)!r}: its square {float(val * val)!r} is not {float(sq)!r} (= ({'.'.join([''.join(map(str, _seq(c['w']))), ''.join(map(str, _seq(c['f'])))])})^2 * 10^{'-' if c['es'] in (2, 3) else ''}{2 * c['k'] + 1})", replay)
        else: ok_n += 1
    log(f"[C13] half-integer exponents: {ok_n}/{len(items)} spellings have the square MechLiteral.HalfExpSquare states")
    rep.cov.update({"half_exponent_literals": len(items), "half_exponent_literals_ok": ok_n})
    return len(items)

def run(rep, tier, seed):
    nlong = long_float_family(rep, tier, seed)
    nlong += half_exponent_family(rep, tier, seed)
    cfg = "MC_C13_quick.cfg" if tier == "quick" else "MC_C13_thorough.cfg"
    t = tlc.run("MC_C13", cfg, workers=16, timeout=3000, xss="64m")
    if t.violations or not t.ok:
        rep.fail("C13/model", "TLC reported a violation of a model-level law: " + "; ".join(t.errors[:3]), {"log": t.log})
    cases = t.cases
    for cs in cases:
        cs["text"] = spelling(cs["lit"], cs["kind"])
    cases.sort(key=lambda c: (c["sig"], c["text"]))
    log(f"[C13] TLC: {t.generated} states, {len(cases)} cases in {t.wall:.1f}s")
    reqs = [{"id": i, "mode": "session", "stmts": [cs["text"]], "opts": {"arm": True}} for i, cs in enumerate(cases)]
    outs = execpool.run_requests(reqs, nworkers=16, timeout=120)
    tally = collections.Counter(); forms = collections.Counter(); texts = set(); free_why = collections.Counter()
    for cs, (resp, oc) in zip(cases, outs):
        l = cs["lit"]; text = cs["text"]; sig = cs["sig"]; kind = cs["kind"]
        texts.add(text); forms[l["form"]] += 1
        replay = {"stmts": [text], "case": cs}
        if oc != "ok" or "steps" not in (resp or {}):
            rep.fail(sig + "/host-" + oc, f"`{text}` -> interpreter process {oc}", replay); continue
        ev = resp["steps"][0]
        is_code = ev.get("p") == "ok" and bool(ev.get("shape")) and ev["shape"][0].startswith("MechCode")
        exp = cs["exp"]; must = cs["must"]
        intmant = sig == "C13/Denote/scientific-integer-mantissa"      # one family: not evaluated at all
        if not is_code:
            if must: rep.fail(sig if intmant else sig + "/noparse", f"`{text}` is not read as code ({ev.get('p')} {ev.get('shape')}); it denotes {cs['re']['n']}/{cs['re']['d']}", replay)
            else: tally["not_code_free"] += 1; free_why[cs["why"]] += 1
            continue
        ok = ev["r"] == "ok"
        if exp == "reject":
            if ok: rep.fail(sig + "/accepted", f"`{text}` evaluates to {absval.short(absval.absval(ev['v']))} (zero denominator)", replay)
            else: tally["reject_ok"] += 1
            continue
        if not ok:
            if must: rep.fail(sig if intmant else sig + "/rejected", f"`{text}` is rejected ({ev.get('class')}: {str(ev.get('msg'))[:80]}) but denotes a value of kind {kind}", replay)
            else: tally["free_error"] += 1; free_why[cs["why"]] += 1
            continue
        got = absval.absval(ev["v"])
        if l["form"] == "cpx":
            if got[0] != 'cplx':
                rep.fail(sig + "/wrong-value", f"`{text}` = {absval.short(got)}, not a complex number", replay); continue
            bad = None
            for part, g, w in (("re", got[1], cs["re"]), ("im", got[2], cs["im"])):
                q = Fraction(w["n"], w["d"])
                why = judge_real("exact" if representable("f64", q) else "nearest", "f64", q, q, g, False)
                if why: bad = f"{part}: {why}, expected {q}"; break
            if bad: rep.fail(sig + "/wrong-value", f"`{text}`: {bad}", replay)
            else: tally["exact_ok"] += 1
            continue
        if cs["eanc"] != "none":
            want = Fraction(anchor(kind, cs["eanc"]) + cs["en"]); want2 = want
        else:
            want = Fraction(cs["en"], cs["ed"]); want2 = Fraction(cs["en2"], 1)
        why = judge_real(exp, kind, want, want2, got, l["ann"] != "none")
        if why:
            ftype = "/wrong-kind" if why.startswith("kind ") else "/wrong-value"
            # a value within a few units in the last place of the denoted number is a ROUNDING defect (e.g. scientific
            # literals are computed as mantissa * 10f64.powf(exp)); anything further away is a different, grosser failure
            if ftype == "/wrong-value" and got[0] == 'num' and got[1] in ("f32", "f64") and want != 0 and exp in ("exact", "nearest"):
                rel = abs(got[2] - want) / abs(want)
                if rel < (Fraction(1, 2 ** 20) if got[1] == "f32" else Fraction(1, 2 ** 44)): ftype = "/misrounded"
            rep.fail(sig + ftype, f"`{text}`: {why}; the spelling denotes {want if exp in ('exact', 'nearest') else str(cs['re']['n']) + '/' + str(cs['re']['d'])} ({exp} in {kind})", replay)
        else:
            tally[{"exact": "exact_ok", "nearest": "nearest_ok", "clamp": "clamp_ok", "nearint": "nearint_ok"}[exp]] += 1
    rep.cov.update({"states": t.generated, "transitions": max(t.generated - 1, 1), "distinct_states": t.distinct,
                    "traces_validated_against_impl": len(reqs) + nlong, "cases_emitted": len(cases), "cases_replayed": len(reqs),
                    "distinct_spellings": len(texts), "by_form": dict(forms),
                    "exact_matched": tally["exact_ok"], "nearest_float_matched": tally["nearest_ok"],
                    "clamped_as_documented": tally["clamp_ok"], "fraction_to_adjacent_integer": tally["nearint_ok"],
                    "rejects_matched": tally["reject_ok"], "free_outcomes": tally["free_error"] + tally["not_code_free"],
                    "free_not_read_as_code": tally["not_code_free"], "free_by_reason": dict(free_why), "exhaustive": True,
                    "rule": "every abstract literal of the bounded MechLiteral model (form x digit strings x underscore placement x exponent "
                            "form x base prefix x kind suffix/annotation x sign; u8/i8/u16/i16 boundaries exactly, wide kinds with small values and "
                            "anchored at Max_k, Min_k, 2^53) rendered to its spelling and evaluated alone; value compared with the model's exact "
                            "rational (floats: exact if representable else nearest, decided with Fractions)"})
    rep.add_samples([{"text": c["text"], "denotes": (f"{c['lit']['anc']}({c['kind']}){c['lit']['off']:+d}" if c["lit"]["form"] == "big" else f"{c['re']['n']}/{c['re']['d']}"), "exp": c["exp"], "kind": c["kind"], "sig": c["sig"]} for c in cases])
    rep.assumptions += ["TLC 2 (tla2tools)", "harness projection (exact integer / IEEE bit patterns)", "renderer areas/c13.py:spelling",
                        "denotations with numerator/denominator >= 2^30 (long digit strings, large exponents) are outside the TLA+ oracle except through anchored literals",
                        "nearest-float relation decided in Python with exact Fractions against the two neighbouring floats"]
