use serde_json::{json, Value as J};
pub fn run_parse(_req: &J) -> J { json!({"error":"todo"}) }
pub fn run_format(_req: &J) -> J { json!({"error":"todo"}) }
