// Parser / formatter modes.
//
//  parse : text -> outcome (tree | report | panic), element shape, erased serde tree (optional),
//          report ranges (optional) and whether TextFormatter::format_error survived.
//  format: text -> tree1 -> text2 (Formatter) -> tree2 -> text3; returns erased trees and texts.
use crate::session::program_shape;
use mech_core::*;
use mech_syntax::formatter::Formatter;
use mech_syntax::parser;
use mech_syntax::{ParserErrorReport, TextFormatter};
use serde_json::{json, Map, Value as J};
use std::panic::{catch_unwind, AssertUnwindSafe};

/// Erase source positions and compress tokens to their text.
pub fn erase(v: &J) -> J {
  match v {
    J::Object(m) => {
      // Token {kind, chars, src_range}
      if m.len() == 3 && m.contains_key("kind") && m.contains_key("chars") && m.contains_key("src_range") {
        let s: String = m
          .get("chars")
          .and_then(|c| c.as_array())
          .map(|a| a.iter().filter_map(|c| c.as_str()).collect::<Vec<_>>().join(""))
          .unwrap_or_default();
        return json!({"T": s});
      }
      let mut out = Map::new();
      for (k, val) in m.iter() {
        if k == "src_range" {
          continue;
        }
        out.insert(k.clone(), erase(val));
      }
      J::Object(out)
    }
    J::Array(a) => J::Array(a.iter().map(erase).collect()),
    other => other.clone(),
  }
}

fn rng(r: &SourceRange) -> J {
  json!([r.start.row, r.start.col, r.end.row, r.end.col])
}

pub fn parse_outcome(text: &str, want_tree: bool) -> (J, Option<Program>) {
  let r = catch_unwind(AssertUnwindSafe(|| parser::parse(text)));
  match r {
    Ok(Ok(tree)) => {
      let mut o = json!({"outcome":"tree","shape":program_shape(&tree)});
      if want_tree {
        o["tree"] = erase(&serde_json::to_value(&tree).unwrap_or(J::Null));
      }
      (o, Some(tree))
    }
    Ok(Err(e)) => {
      let mut o = json!({"outcome":"report","class":e.kind_name()});
      if let Some(rep) = e.kind_as::<ParserErrorReport>() {
        let mut ranges = vec![];
        for c in rep.1.iter() {
          ranges.push(rng(&c.cause_rng));
          for a in c.annotation_rngs.iter() {
            ranges.push(rng(a));
          }
        }
        o["n"] = json!(rep.1.len());
        o["ranges"] = json!(ranges);
        o["src_eq"] = json!(rep.0 == text);
        // the formatter indexes the source by the reported ranges: it must not panic
        let fe = catch_unwind(AssertUnwindSafe(|| TextFormatter::new(text).format_error(rep)));
        o["fmt_ok"] = json!(fe.is_ok());
        if let Ok(s) = fe {
          o["fmt_len"] = json!(s.len());
        }
      }
      (o, None)
    }
    Err(_) => (json!({"outcome":"panic"}), None),
  }
}

pub fn run_parse(req: &J) -> J {
  let text = req.get("text").and_then(|t| t.as_str()).unwrap_or("");
  let want_tree = req.get("tree").and_then(|b| b.as_bool()).unwrap_or(false);
  #[cfg(mech_verif)]
  {
    mech_syntax::verif_hooks::reset();
  }
  let (mut o, _) = parse_outcome(text, want_tree);
  #[cfg(mech_verif)]
  {
    if req.get("events").and_then(|b| b.as_bool()).unwrap_or(false) {
      let ev = mech_syntax::verif_hooks::take();
      o["events"] = json!(ev.iter().map(|(s, i, c, l)| json!([s, i, c, l])).collect::<Vec<_>>());
    }
  }
  // the source as the parser sees it (init_source appends a newline): display width of every line
  {
    let gs = mech_syntax::graphemes::init_source(text);
    let mut lw: Vec<usize> = vec![0];
    let n = gs.len();
    for (i, g) in gs.iter().enumerate() {
      if mech_syntax::graphemes::is_new_line(g) {
        if i + 1 < n {
          lw.push(0);
        }
      } else {
        *lw.last_mut().unwrap() += mech_syntax::graphemes::width(g);
      }
    }
    o["lw"] = json!(lw);
    o["ng"] = json!(n);
  }
  o
}

/// parseseq: the texts are parsed one after the other IN THIS PROCESS (same thread): the outcome of a text must not depend on
/// what was parsed before it.  Returns the core outcome record of every parse.
pub fn run_parse_seq(req: &J) -> J {
  let empty = vec![];
  let texts = req.get("texts").and_then(|t| t.as_array()).unwrap_or(&empty);
  let mut outs = vec![];
  for t in texts.iter() {
    let text = t.as_str().unwrap_or("");
    #[cfg(mech_verif)]
    {
      mech_syntax::verif_hooks::reset();
    }
    let (o, _) = parse_outcome(text, false);
    outs.push(o);
  }
  json!({"outs": outs})
}

pub fn run_format(req: &J) -> J {
  let text = req.get("text").and_then(|t| t.as_str()).unwrap_or("");
  let (o1, t1) = parse_outcome(text, true);
  let mut out = json!({"p1": o1});
  let t1 = match t1 {
    Some(t) => t,
    None => return out,
  };
  let f1 = catch_unwind(AssertUnwindSafe(|| Formatter::new().format(&t1)));
  let text2 = match f1 {
    Ok(s) => s,
    Err(_) => {
      out["f1"] = json!("panic");
      return out;
    }
  };
  out["text2"] = json!(text2);
  let (o2, t2) = parse_outcome(&text2, true);
  out["p2"] = o2;
  if let Some(t2) = t2 {
    let f2 = catch_unwind(AssertUnwindSafe(|| Formatter::new().format(&t2)));
    match f2 {
      Ok(s) => out["text3"] = json!(s),
      Err(_) => out["f2"] = json!("panic"),
    }
  }
  out
}
