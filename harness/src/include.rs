// Include mode: materialise a directory tree, load the root through mech::read_mech_source_file,
// return the expanded text or the error, plus the H2 hook events (paths relative to the tree).
use mech_core::*;
use serde_json::{json, Value as J};
use std::panic::{catch_unwind, AssertUnwindSafe};
use std::path::PathBuf;
use std::sync::atomic::{AtomicU64, Ordering};

static COUNTER: AtomicU64 = AtomicU64::new(0);

pub fn run(req: &J) -> J {
  let base = std::env::var("MECHVERIF_TMP").map(PathBuf::from).unwrap_or_else(|_| std::env::temp_dir());
  let n = COUNTER.fetch_add(1, Ordering::SeqCst);
  let dir = base.join(format!("mv-inc-{}-{}", std::process::id(), n));
  let _ = std::fs::remove_dir_all(&dir);
  if std::fs::create_dir_all(&dir).is_err() {
    return json!({"error":"cannot create temp dir"});
  }
  let canon = dir.canonicalize().unwrap_or(dir.clone());
  if let Some(files) = req.get("files").and_then(|f| f.as_object()) {
    for (rel, content) in files.iter() {
      let p = dir.join(rel);
      if let Some(parent) = p.parent() {
        let _ = std::fs::create_dir_all(parent);
      }
      let _ = std::fs::write(&p, content.as_str().unwrap_or(""));
    }
  }
  if let Some(dirs) = req.get("dirs").and_then(|f| f.as_array()) {
    for d in dirs.iter() {
      let _ = std::fs::create_dir_all(dir.join(d.as_str().unwrap_or("")));
    }
  }
  let root = dir.join(req.get("root").and_then(|r| r.as_str()).unwrap_or("a.mec"));
  #[cfg(mech_verif)]
  {
    let _ = mech::verif_hooks::take_include_events();
  }
  let r = catch_unwind(AssertUnwindSafe(|| mech::read_mech_source_file(&root)));
  let prefix = format!("{}/", canon.display());
  let strip = |s: &str| s.replace(&prefix, "");
  let mut out = match r {
    Ok(Ok(MechSourceCode::String(s))) => json!({"r":"ok","text":s}),
    Ok(Ok(_)) => json!({"r":"ok-other"}),
    Ok(Err(e)) => json!({"r":"err","class":e.kind_name(),"msg":strip(&e.kind_message())}),
    Err(_) => json!({"r":"panic"}),
  };
  #[cfg(mech_verif)]
  {
    let ev = mech::verif_hooks::take_include_events();
    out["events"] = json!(ev.iter().map(|(k, p)| json!([k, strip(p)])).collect::<Vec<_>>());
  }
  let _ = std::fs::remove_dir_all(&dir);
  out
}
