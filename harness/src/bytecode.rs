// Bytecode modes.
//  bytecode: interpret a program, compile, load, run in a FRESH interpreter, step both sides.
//  bytes   : apply mutations to an emitted file and report what the loader / constant decoder /
//            run_program do with each (reject / accept / panic / oom).  Allocation failures under the
//            worker's address-space limit become panics through the alloc-error hook (main.rs).
use crate::project::{kind_of, project};
use crate::session::{parse_cached, project_store};
use mech_core::*;
use mech_interpreter::*;
use serde_json::{json, Map, Value as J};
use std::panic::{catch_unwind, AssertUnwindSafe};

fn hex(b: &[u8]) -> String {
  let mut s = String::with_capacity(b.len() * 2);
  for x in b {
    s.push_str(&format!("{:02x}", x));
  }
  s
}
fn unhex(s: &str) -> Vec<u8> {
  (0..s.len() / 2).map(|i| u8::from_str_radix(&s[2 * i..2 * i + 2], 16).unwrap_or(0)).collect()
}

fn panic_msg(p: &Box<dyn std::any::Any + Send>) -> String {
  p.downcast_ref::<&'static str>()
    .map(|s| s.to_string())
    .or_else(|| p.downcast_ref::<String>().cloned())
    .unwrap_or_else(|| "non-string panic".to_string())
}

fn outcome_val(r: std::thread::Result<MResult<Value>>) -> J {
  match r {
    Ok(Ok(v)) => json!({"r":"ok","v":project(&v),"k":kind_of(&v)}),
    Ok(Err(e)) => json!({"r":"err","class":e.kind_name()}),
    Err(p) => json!({"r":"panic","msg":panic_msg(&p)}),
  }
}

fn header_json(h: &ByteCodeHeader) -> J {
  json!({
    "version": h.version, "mech_ver": h.mech_ver, "flags": h.flags, "reg_count": h.reg_count, "instr_count": h.instr_count,
    "feature_count": h.feature_count, "feature_off": h.feature_off.to_string(), "types_count": h.types_count, "types_off": h.types_off.to_string(),
    "const_count": h.const_count, "const_tbl_off": h.const_tbl_off.to_string(), "const_tbl_len": h.const_tbl_len.to_string(),
    "const_blob_off": h.const_blob_off.to_string(), "const_blob_len": h.const_blob_len.to_string(),
    "symbols_len": h.symbols_len.to_string(), "symbols_off": h.symbols_off.to_string(),
    "instr_off": h.instr_off.to_string(), "instr_len": h.instr_len.to_string(),
    "dict_off": h.dict_off.to_string(), "dict_len": h.dict_len.to_string(),
  })
}

pub fn run(req: &J) -> J {
  let stmts = req.get("stmts").and_then(|s| s.as_array()).cloned().unwrap_or_default();
  let want_bytes = req.get("want_bytes").and_then(|b| b.as_bool()).unwrap_or(false);
  let mut out = Map::new();
  let mut intrp = Interpreter::new(0);
  let mut last = json!({"r":"none"});
  // "precompile": [k, ...] - Interpreter::compile() is also called (result discarded) after the first k statements: compiling is
  // a function of the interpreter's state, so earlier compile calls must not influence what the final compile emits
  let precompile: Vec<u64> = req.get("precompile").and_then(|s| s.as_array()).map(|a| a.iter().filter_map(|x| x.as_u64()).collect()).unwrap_or_default();
  for (si, st) in stmts.iter().enumerate() {
    let text = st.as_str().unwrap_or("");
    match parse_cached(text) {
      Ok(tree) => {
        last = outcome_val(catch_unwind(AssertUnwindSafe(|| intrp.interpret(&tree))));
        if last["r"] != "ok" {
          break;
        }
        if precompile.contains(&((si + 1) as u64)) {
          let pc = catch_unwind(AssertUnwindSafe(|| intrp.compile()));
          let tag = match pc { Ok(Ok(_)) => "ok", Ok(Err(_)) => "err", Err(_) => "panic" };
          out.insert(format!("precompile_{}", si + 1), json!(tag));
        }
      }
      Err(e) => {
        last = json!({"r":"noparse","p":e});
        break;
      }
    }
  }
  out.insert("interp".into(), last.clone());
  if last["r"] != "ok" {
    return J::Object(out);
  }
  let (s0, _) = project_store(&intrp, None);
  out.insert("store".into(), s0);
  // plan as text (first line of each step) for register/operand attribution
  {
    let plan = intrp.plan();
    let plan = plan.borrow();
    let names: Vec<String> = plan.iter().map(|f| f.to_string().lines().next().unwrap_or("").to_string()).collect();
    out.insert("plan".into(), json!(names));
  }
  let comp = catch_unwind(AssertUnwindSafe(|| intrp.compile()));
  let bytes = match comp {
    Ok(Ok(b)) => b,
    Ok(Err(e)) => {
      out.insert("compile".into(), json!({"r":"err","class":e.kind_name()}));
      return J::Object(out);
    }
    Err(p) => {
      out.insert("compile".into(), json!({"r":"panic","msg":panic_msg(&p)}));
      return J::Object(out);
    }
  };
  out.insert("compile".into(), json!({"r":"ok","len":bytes.len()}));
  if want_bytes {
    out.insert("hex".into(), json!(hex(&bytes)));
  }
  let loaded = catch_unwind(AssertUnwindSafe(|| ParsedProgram::from_bytes(&bytes)));
  let prog = match loaded {
    Ok(Ok(p)) => p,
    Ok(Err(e)) => {
      out.insert("load".into(), json!({"r":"err","class":e.kind_name()}));
      return J::Object(out);
    }
    Err(p) => {
      out.insert("load".into(), json!({"r":"panic","msg":panic_msg(&p)}));
      return J::Object(out);
    }
  };
  let reenc = catch_unwind(AssertUnwindSafe(|| prog.to_bytes()));
  let reenc_j = match reenc {
    Ok(Ok(b)) => json!({"r":"ok","eq": b == bytes, "len": b.len()}),
    Ok(Err(e)) => json!({"r":"err","class":e.kind_name()}),
    Err(p) => json!({"r":"panic","msg":panic_msg(&p)}),
  };
  let consts = catch_unwind(AssertUnwindSafe(|| prog.decode_const_entries()));
  let consts_j = match consts {
    Ok(Ok(vs)) => json!({"r":"ok","v": vs.iter().map(project).collect::<Vec<_>>()}),
    Ok(Err(e)) => json!({"r":"err","class":e.kind_name()}),
    Err(p) => json!({"r":"panic","msg":panic_msg(&p)}),
  };
  let instrs: Vec<String> = prog.instrs.iter().map(|i| format!("{:?}", i)).collect();
  out.insert(
    "load".into(),
    json!({"r":"ok","header":header_json(&prog.header),"nconst":prog.const_entries.len(),"instrs":instrs,
           "nsymbols":prog.symbols.len(),"reenc":reenc_j,"consts":consts_j}),
  );
  // run in a FRESH interpreter
  let mut fresh = Interpreter::new(1);
  let runr = outcome_val(catch_unwind(AssertUnwindSafe(|| fresh.run_program(&prog))));
  out.insert("run".into(), runr.clone());
  // re-evaluate both sides once
  let so = outcome_val(catch_unwind(AssertUnwindSafe(|| intrp.step(0, 1))));
  out.insert("step_orig".into(), so);
  if runr["r"] == "ok" {
    let sl = outcome_val(catch_unwind(AssertUnwindSafe(|| fresh.step(0, 1))));
    out.insert("step_loaded".into(), sl);
  }
  J::Object(out)
}

fn crc_fix(b: &mut Vec<u8>) {
  if b.len() >= 4 {
    let n = b.len() - 4;
    let c = crc32fast::hash(&b[..n]);
    b[n..].copy_from_slice(&c.to_le_bytes());
  }
}

fn apply(base: &[u8], m: &J) -> Vec<u8> {
  let kind = m.get("k").and_then(|k| k.as_str()).unwrap_or("");
  let mut b = base.to_vec();
  match kind {
    "trunc" => {
      let n = m["n"].as_u64().unwrap_or(0) as usize;
      b.truncate(n.min(b.len()));
    }
    "flip" => {
      let bit = m["bit"].as_u64().unwrap_or(0) as usize;
      if bit / 8 < b.len() {
        b[bit / 8] ^= 1 << (bit % 8);
      }
    }
    "burst" => {
      // xor `w` consecutive bits starting at bit `bit` with pattern `pat` (first and last bit forced to 1)
      let bit = m["bit"].as_u64().unwrap_or(0) as usize;
      let w = m["w"].as_u64().unwrap_or(1) as usize;
      let pat = m["pat"].as_u64().unwrap_or(u64::MAX);
      for i in 0..w {
        let on = i == 0 || i == w - 1 || (pat >> (i % 64)) & 1 == 1;
        let p = bit + i;
        if on && p / 8 < b.len() {
          b[p / 8] ^= 1 << (p % 8);
        }
      }
    }
    "set" => {
      // overwrite bytes at `off` with hex `bytes`; optional crc recompute
      let off = m["off"].as_u64().unwrap_or(0) as usize;
      let nb = unhex(m["bytes"].as_str().unwrap_or(""));
      for (i, x) in nb.iter().enumerate() {
        if off + i < b.len() {
          b[off + i] = *x;
        }
      }
    }
    "raw" => {
      b = unhex(m["hex"].as_str().unwrap_or(""));
    }
    "append" => {
      b.extend(unhex(m["bytes"].as_str().unwrap_or("")));
    }
    _ => {}
  }
  if m.get("fixcrc").and_then(|x| x.as_bool()).unwrap_or(false) {
    crc_fix(&mut b);
  }
  b
}

fn classify_panic(msg: &str) -> &'static str {
  if msg.contains("verif-alloc-error") || msg.contains("capacity overflow") || msg.contains("memory allocation") {
    "oom"
  } else {
    "panic"
  }
}

pub fn run_bytes(req: &J) -> J {
  let base = unhex(req.get("hex").and_then(|h| h.as_str()).unwrap_or(""));
  let muts = req.get("muts").and_then(|m| m.as_array()).cloned().unwrap_or_default();
  let run_accepted = req.get("run").and_then(|b| b.as_bool()).unwrap_or(true);
  let mut res: Vec<J> = Vec::with_capacity(muts.len());
  for m in muts.iter() {
    let b = apply(&base, m);
    let same = b == base;
    let took_alloc_failure = || crate::ALLOC_FAILED.swap(false, std::sync::atomic::Ordering::SeqCst);
    took_alloc_failure();
    let l = catch_unwind(AssertUnwindSafe(|| ParsedProgram::from_bytes(&b)));
    if took_alloc_failure() {
      res.push(json!({"o":"oom","stage":"load","same":same,"msg":"an allocation failed under the worker's address-space limit"}));
      continue;
    }
    match l {
      Ok(Err(e)) => res.push(json!({"o":"reject","same":same,"class":e.kind_name()})),
      Err(p) => {
        let msg = panic_msg(&p);
        res.push(json!({"o":classify_panic(&msg),"stage":"load","same":same,"msg":msg}))
      }
      Ok(Ok(prog)) => {
        let mut o = json!({"o":"accept","same":same});
        let d = catch_unwind(AssertUnwindSafe(|| prog.decode_const_entries()));
        let d_oom = took_alloc_failure();
        match d {
          Ok(Ok(_)) => o["decode"] = json!("ok"),
          Ok(Err(_)) => o["decode"] = json!("err"),
          Err(p) => {
            let msg = panic_msg(&p);
            o["decode"] = json!(classify_panic(&msg));
            o["msg"] = json!(msg);
          }
        }
        if d_oom { o["decode"] = json!("oom"); }
        let re = catch_unwind(AssertUnwindSafe(|| prog.to_bytes()));
        match re {
          Ok(Ok(rb)) => o["reenc_eq"] = json!(rb == b),
          Ok(Err(_)) => o["reenc_eq"] = json!("err"),
          Err(_) => o["reenc_eq"] = json!("panic"),
        }
        if run_accepted {
          let mut fresh = Interpreter::new(1);
          let r = catch_unwind(AssertUnwindSafe(|| fresh.run_program(&prog)));
          match r {
            Ok(Ok(_)) => o["run"] = json!("ok"),
            Ok(Err(_)) => o["run"] = json!("err"),
            Err(p) => {
              let msg = panic_msg(&p);
              o["run"] = json!(classify_panic(&msg));
              o["msg"] = json!(msg);
            }
          }
          if took_alloc_failure() { o["run"] = json!("oom"); }
        }
        res.push(o);
      }
    }
  }
  json!({"res": res})
}

// ctx: write a model-given instruction list (plus f64 constants and symbols) into a real file through the REAL compiler
// context (CompileCtx::emit_* / compile_const / define_symbol / compile), then load it with the real loader and report
// what was decoded: the instruction section bytes, the decoded instructions, header counts, symbols and constants.
pub fn run_ctx(req: &J) -> J {
  let instrs = req.get("instrs").and_then(|s| s.as_array()).cloned().unwrap_or_default();
  let nconst = req.get("nconst").and_then(|n| n.as_u64()).unwrap_or(0);
  let syms = req.get("symbols").and_then(|s| s.as_array()).cloned().unwrap_or_default();
  let r = catch_unwind(AssertUnwindSafe(|| -> MResult<J> {
    let mut ctx = CompileCtx::new();
    for c in 0..nconst {
      let v: f64 = (c as f64) + 0.5;
      ctx.compile_const(&v.to_le_bytes(), ValueKind::F64)?;
    }
    let mut maxreg: u32 = 0;
    for ins in instrs.iter() {
      let op = ins["op"].as_str().unwrap_or("");
      let fxn = ins["fxn"].as_u64().unwrap_or(0);
      let dst = ins["dst"].as_u64().unwrap_or(0) as u32;
      let a: Vec<u32> = ins["args"].as_array().map(|v| v.iter().map(|x| x.as_u64().unwrap_or(0) as u32).collect()).unwrap_or_default();
      maxreg = maxreg.max(dst);
      if op != "ConstLoad" { for x in a.iter() { maxreg = maxreg.max(*x); } }
      match op {
        "ConstLoad" => ctx.emit_const_load(dst, a[0]),
        "NullOp" => ctx.emit_nullop(fxn, dst),
        "UnOp" => ctx.emit_unop(fxn, dst, a[0]),
        "BinOp" => ctx.emit_binop(fxn, dst, a[0], a[1]),
        "TernOp" => ctx.emit_ternop(fxn, dst, a[0], a[1], a[2]),
        "QuadOp" => ctx.emit_quadop(fxn, dst, a[0], a[1], a[2], a[3]),
        "VarArg" => ctx.emit_varop(fxn, dst, a.clone()),
        "Ret" => ctx.emit_ret(a[0]),
        _ => {}
      }
    }
    ctx.next_reg = maxreg + 1;
    for s in syms.iter() {
      let name = s["name"].as_str().unwrap_or("v");
      ctx.define_symbol(s["ptr"].as_u64().unwrap_or(0) as usize, s["reg"].as_u64().unwrap_or(0) as u32, name, s["mutable"].as_bool().unwrap_or(false));
    }
    let bytes = ctx.compile()?;
    let prog = ParsedProgram::from_bytes(&bytes)?;
    let io = prog.header.instr_off as usize;
    let il = prog.header.instr_len as usize;
    let section = if io + il <= bytes.len() { hex(&bytes[io..io + il]) } else { "".to_string() };
    let decoded: Vec<J> = prog.instrs.iter().map(|i| match i {
      DecodedInstr::ConstLoad { dst, const_id } => json!({"op":"ConstLoad","fxn":0,"dst":dst,"args":[const_id]}),
      DecodedInstr::NullOp { fxn_id, dst } => json!({"op":"NullOp","fxn":fxn_id,"dst":dst,"args":[]}),
      DecodedInstr::UnOp { fxn_id, dst, src } => json!({"op":"UnOp","fxn":fxn_id,"dst":dst,"args":[src]}),
      DecodedInstr::BinOp { fxn_id, dst, lhs, rhs } => json!({"op":"BinOp","fxn":fxn_id,"dst":dst,"args":[lhs,rhs]}),
      DecodedInstr::TernOp { fxn_id, dst, a, b, c } => json!({"op":"TernOp","fxn":fxn_id,"dst":dst,"args":[a,b,c]}),
      DecodedInstr::QuadOp { fxn_id, dst, a, b, c, d } => json!({"op":"QuadOp","fxn":fxn_id,"dst":dst,"args":[a,b,c,d]}),
      DecodedInstr::VarArg { fxn_id, dst, args } => json!({"op":"VarArg","fxn":fxn_id,"dst":dst,"args":args}),
      DecodedInstr::Ret { src } => json!({"op":"Ret","fxn":0,"dst":0,"args":[src]}),
      DecodedInstr::Unknown { opcode, .. } => json!({"op":"Unknown","fxn":0,"dst":0,"args":[opcode]}),
    }).collect();
    let reenc = prog.to_bytes()?;
    let mut symv: Vec<J> = prog.symbols.iter().map(|(id, reg)| json!({"name": prog.dictionary.get(id).cloned().unwrap_or_default(), "reg": reg, "mutable": prog.mutable_symbols.contains(id)})).collect();
    symv.sort_by(|a, b| a["name"].as_str().unwrap_or("").cmp(b["name"].as_str().unwrap_or("")));
    let consts = prog.decode_const_entries()?;
    Ok(json!({"r":"ok","section":section,"decoded":decoded,"header":header_json(&prog.header),"reenc_eq": reenc == bytes,
              "symbols":symv,"consts": consts.iter().map(project).collect::<Vec<_>>(), "len": bytes.len()}))
  }));
  match r {
    Ok(Ok(j)) => j,
    Ok(Err(e)) => json!({"r":"err","class":e.kind_name()}),
    Err(p) => json!({"r":"panic","msg":panic_msg(&p)}),
  }
}
