use serde_json::{json, Value as J};
pub fn run(_req: &J) -> J { json!({"error":"todo"}) }
pub fn run_bytes(_req: &J) -> J { json!({"error":"todo"}) }
