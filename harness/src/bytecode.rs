// Bytecode modes.
//  bytecode: interpret a program, compile, load, run in a FRESH interpreter, step both sides.
//  bytes   : apply mutations to an emitted file and report what the loader / constant decoder /
//            run_program do with each (reject / accept / panic / oom).  Allocation failures under the
//            worker's address-space limit become panics through the alloc-error hook (main.rs).
use crate::project::{kind_of, project};
use crate::session::{parse_cached, project_store};
use mech_core::*;
use mech_interpreter::*;
use serde_json::{json, Map, Value as J};
use std::panic::{catch_unwind, AssertUnwindSafe};

fn hex(b: &[u8]) -> String {
  let mut s = String::with_capacity(b.len() * 2);
  for x in b {
    s.push_str(&format!("{:02x}", x));
  }
  s
}
fn unhex(s: &str) -> Vec<u8> {
  (0..s.len() / 2).map(|i| u8::from_str_radix(&s[2 * i..2 * i + 2], 16).unwrap_or(0)).collect()
}

fn panic_msg(p: &Box<dyn std::any::Any + Send>) -> String {
  p.downcast_ref::<&'static str>()
    .map(|s| s.to_string())
    .or_else(|| p.downcast_ref::<String>().cloned())
    .unwrap_or_else(|| "non-string panic".to_string())
}

fn outcome_val(r: std::thread::Result<MResult<Value>>) -> J {
  match r {
    Ok(Ok(v)) => json!({"r":"ok","v":project(&v),"k":kind_of(&v)}),
    Ok(Err(e)) => json!({"r":"err","class":e.kind_name()}),
    Err(p) => json!({"r":"panic","msg":panic_msg(&p)}),
  }
}

fn header_json(h: &ByteCodeHeader) -> J {
  json!({
    "version": h.version, "mech_ver": h.mech_ver, "flags": h.flags, "reg_count": h.reg_count, "instr_count": h.instr_count,
    "feature_count": h.feature_count, "feature_off": h.feature_off.to_string(), "types_count": h.types_count, "types_off": h.types_off.to_string(),
    "const_count": h.const_count, "const_tbl_off": h.const_tbl_off.to_string(), "const_tbl_len": h.const_tbl_len.to_string(),
    "const_blob_off": h.const_blob_off.to_string(), "const_blob_len": h.const_blob_len.to_string(),
    "symbols_len": h.symbols_len.to_string(), "symbols_off": h.symbols_off.to_string(),
    "instr_off": h.instr_off.to_string(), "instr_len": h.instr_len.to_string(),
    "dict_off": h.dict_off.to_string(), "dict_len": h.dict_len.to_string(),
  })
}

pub fn run(req: &J) -> J {
  let stmts = req.get("stmts").and_then(|s| s.as_array()).cloned().unwrap_or_default();
  let want_bytes = req.get("want_bytes").and_then(|b| b.as_bool()).unwrap_or(false);
  let mut out = Map::new();
  let mut intrp = Interpreter::new(0);
  let mut last = json!({"r":"none"});
  for st in stmts.iter() {
    let text = st.as_str().unwrap_or("");
    match parse_cached(text) {
      Ok(tree) => {
        last = outcome_val(catch_unwind(AssertUnwindSafe(|| intrp.interpret(&tree))));
        if last["r"] != "ok" {
          break;
        }
      }
      Err(e) => {
        last = json!({"r":"noparse","p":e});
        break;
      }
    }
  }
  out.insert("interp".into(), last.clone());
  if last["r"] != "ok" {
    return J::Object(out);
  }
  let (s0, _) = project_store(&intrp, None);
  out.insert("store".into(), s0);
  // plan as text (first line of each step) for register/operand attribution
  {
    let plan = intrp.plan();
    let plan = plan.borrow();
    let names: Vec<String> = plan.iter().map(|f| f.to_string().lines().next().unwrap_or("").to_string()).collect();
    out.insert("plan".into(), json!(names));
  }
  let comp = catch_unwind(AssertUnwindSafe(|| intrp.compile()));
  let bytes = match comp {
    Ok(Ok(b)) => b,
    Ok(Err(e)) => {
      out.insert("compile".into(), json!({"r":"err","class":e.kind_name()}));
      return J::Object(out);
    }
    Err(p) => {
      out.insert("compile".into(), json!({"r":"panic","msg":panic_msg(&p)}));
      return J::Object(out);
    }
  };
  out.insert("compile".into(), json!({"r":"ok","len":bytes.len()}));
  if want_bytes {
    out.insert("hex".into(), json!(hex(&bytes)));
  }
  let loaded = catch_unwind(AssertUnwindSafe(|| ParsedProgram::from_bytes(&bytes)));
  let prog = match loaded {
    Ok(Ok(p)) => p,
    Ok(Err(e)) => {
      out.insert("load".into(), json!({"r":"err","class":e.kind_name()}));
      return J::Object(out);
    }
    Err(p) => {
      out.insert("load".into(), json!({"r":"panic","msg":panic_msg(&p)}));
      return J::Object(out);
    }
  };
  let reenc = catch_unwind(AssertUnwindSafe(|| prog.to_bytes()));
  let reenc_j = match reenc {
    Ok(Ok(b)) => json!({"r":"ok","eq": b == bytes, "len": b.len()}),
    Ok(Err(e)) => json!({"r":"err","class":e.kind_name()}),
    Err(p) => json!({"r":"panic","msg":panic_msg(&p)}),
  };
  let consts = catch_unwind(AssertUnwindSafe(|| prog.decode_const_entries()));
  let consts_j = match consts {
    Ok(Ok(vs)) => json!({"r":"ok","v": vs.iter().map(project).collect::<Vec<_>>()}),
    Ok(Err(e)) => json!({"r":"err","class":e.kind_name()}),
    Err(p) => json!({"r":"panic","msg":panic_msg(&p)}),
  };
  let instrs: Vec<String> = prog.instrs.iter().map(|i| format!("{:?}", i)).collect();
  out.insert(
    "load".into(),
    json!({"r":"ok","header":header_json(&prog.header),"nconst":prog.const_entries.len(),"instrs":instrs,
           "nsymbols":prog.symbols.len(),"reenc":reenc_j,"consts":consts_j}),
  );
  // run in a FRESH interpreter
  let mut fresh = Interpreter::new(1);
  let runr = outcome_val(catch_unwind(AssertUnwindSafe(|| fresh.run_program(&prog))));
  out.insert("run".into(), runr.clone());
  // re-evaluate both sides once
  let so = outcome_val(catch_unwind(AssertUnwindSafe(|| intrp.step(0, 1))));
  out.insert("step_orig".into(), so);
  if runr["r"] == "ok" {
    let sl = outcome_val(catch_unwind(AssertUnwindSafe(|| fresh.step(0, 1))));
    out.insert("step_loaded".into(), sl);
  }
  J::Object(out)
}

fn crc_fix(b: &mut Vec<u8>) {
  if b.len() >= 4 {
    let n = b.len() - 4;
    let c = crc32fast::hash(&b[..n]);
    b[n..].copy_from_slice(&c.to_le_bytes());
  }
}

fn apply(base: &[u8], m: &J) -> Vec<u8> {
  let kind = m.get("k").and_then(|k| k.as_str()).unwrap_or("");
  let mut b = base.to_vec();
  match kind {
    "trunc" => {
      let n = m["n"].as_u64().unwrap_or(0) as usize;
      b.truncate(n.min(b.len()));
    }
    "flip" => {
      let bit = m["bit"].as_u64().unwrap_or(0) as usize;
      if bit / 8 < b.len() {
        b[bit / 8] ^= 1 << (bit % 8);
      }
    }
    "burst" => {
      // xor `w` consecutive bits starting at bit `bit` with pattern `pat` (first and last bit forced to 1)
      let bit = m["bit"].as_u64().unwrap_or(0) as usize;
      let w = m["w"].as_u64().unwrap_or(1) as usize;
      let pat = m["pat"].as_u64().unwrap_or(u64::MAX);
      for i in 0..w {
        let on = i == 0 || i == w - 1 || (pat >> (i % 64)) & 1 == 1;
        let p = bit + i;
        if on && p / 8 < b.len() {
          b[p / 8] ^= 1 << (p % 8);
        }
      }
    }
    "set" => {
      // overwrite bytes at `off` with hex `bytes`; optional crc recompute
      let off = m["off"].as_u64().unwrap_or(0) as usize;
      let nb = unhex(m["bytes"].as_str().unwrap_or(""));
      for (i, x) in nb.iter().enumerate() {
        if off + i < b.len() {
          b[off + i] = *x;
        }
      }
    }
    "raw" => {
      b = unhex(m["hex"].as_str().unwrap_or(""));
    }
    "append" => {
      b.extend(unhex(m["bytes"].as_str().unwrap_or("")));
    }
    _ => {}
  }
  if m.get("fixcrc").and_then(|x| x.as_bool()).unwrap_or(false) {
    crc_fix(&mut b);
  }
  b
}

fn classify_panic(msg: &str) -> &'static str {
  if msg.contains("verif-alloc-error") || msg.contains("capacity overflow") || msg.contains("memory allocation") {
    "oom"
  } else {
    "panic"
  }
}

pub fn run_bytes(req: &J) -> J {
  let base = unhex(req.get("hex").and_then(|h| h.as_str()).unwrap_or(""));
  let muts = req.get("muts").and_then(|m| m.as_array()).cloned().unwrap_or_default();
  let run_accepted = req.get("run").and_then(|b| b.as_bool()).unwrap_or(true);
  let mut res: Vec<J> = Vec::with_capacity(muts.len());
  for m in muts.iter() {
    let b = apply(&base, m);
    let same = b == base;
    let l = catch_unwind(AssertUnwindSafe(|| ParsedProgram::from_bytes(&b)));
    match l {
      Ok(Err(e)) => res.push(json!({"o":"reject","same":same,"class":e.kind_name()})),
      Err(p) => {
        let msg = panic_msg(&p);
        res.push(json!({"o":classify_panic(&msg),"stage":"load","same":same,"msg":msg}))
      }
      Ok(Ok(prog)) => {
        let mut o = json!({"o":"accept","same":same});
        let d = catch_unwind(AssertUnwindSafe(|| prog.decode_const_entries()));
        match d {
          Ok(Ok(_)) => o["decode"] = json!("ok"),
          Ok(Err(_)) => o["decode"] = json!("err"),
          Err(p) => {
            let msg = panic_msg(&p);
            o["decode"] = json!(classify_panic(&msg));
            o["msg"] = json!(msg);
          }
        }
        let re = catch_unwind(AssertUnwindSafe(|| prog.to_bytes()));
        match re {
          Ok(Ok(rb)) => o["reenc_eq"] = json!(rb == b),
          Ok(Err(_)) => o["reenc_eq"] = json!("err"),
          Err(_) => o["reenc_eq"] = json!("panic"),
        }
        if run_accepted {
          let mut fresh = Interpreter::new(1);
          let r = catch_unwind(AssertUnwindSafe(|| fresh.run_program(&prog)));
          match r {
            Ok(Ok(_)) => o["run"] = json!("ok"),
            Ok(Err(_)) => o["run"] = json!("err"),
            Err(p) => {
              let msg = panic_msg(&p);
              o["run"] = json!(classify_panic(&msg));
              o["msg"] = json!(msg);
            }
          }
        }
        res.push(o);
      }
    }
  }
  json!({"res": res})
}
