// Stepwise mode: parse a WHOLE program (one of the repository's own test/doc programs, or any text), then
// interpret its code items one at a time in one interpreter, and after every item record the statement
// kind, the names it targets, the outcome and a digest of every variable (impl -> spec trace events for
// Trace_C05g).  Optionally a generic probe tail is appended (statements that must fail / must not interfere
// whatever the kind of value a name holds).
use crate::project::{kind_of, project};
use mech_core::*;
use mech_interpreter::*;
use serde_json::{json, Map, Value as J};
use std::collections::hash_map::DefaultHasher;
use std::hash::{Hash, Hasher};
use std::panic::{catch_unwind, AssertUnwindSafe};

fn digest(v: &Value) -> String {
  let s = format!("{}|{}", kind_of(v), project(v));
  let mut h = DefaultHasher::new();
  s.hash(&mut h);
  let short: String = s.chars().filter(|c| c.is_ascii() && !c.is_ascii_control() && *c != '"' && *c != '\\').take(40).collect();
  format!("{:016x}:{}", h.finish(), short)
}

fn ascii_name(n: &str) -> String {
  // TLC's Json module mangles non-ASCII: escape.  An escaped name starts with "U+" (no Mech identifier
  // contains '+'), so it can neither collide with a real identifier nor be taken for one by the probe generator.
  if n.chars().all(|c| c.is_ascii() && !c.is_ascii_control() && c != '"' && c != '\\') { return n.to_string(); }
  let mut o = String::from("U+");
  for c in n.chars() {
    if c.is_ascii() && !c.is_ascii_control() && c != '"' && c != '\\' { o.push(c) } else { o.push_str(&format!("{{{:x}}}", c as u32)) }
  }
  o
}

fn store_digest(intrp: &Interpreter) -> (Map<String, J>, Vec<String>) {
  let syms = intrp.symbols();
  let syms = syms.borrow();
  let dict = syms.dictionary.borrow();
  let state = intrp.state.borrow();
  let dict2 = state.dictionary.borrow();
  let name_of = |id: &u64| -> String {
    ascii_name(&dict.get(id).cloned().or_else(|| dict2.get(id).cloned()).unwrap_or_else(|| format!("#{}", id)))
  };
  let mut store = Map::new();
  for (id, cell) in syms.symbols.iter() {
    let v = cell.borrow();
    store.insert(name_of(id), json!(digest(&v)));
  }
  let mut muts: Vec<String> = syms.mutable_variables.keys().map(|id| name_of(id)).collect();
  muts.sort();
  (store, muts)
}

fn tokens_text(tokens: &Vec<Token>) -> String {
  tokens.iter().map(|t| t.to_string()).collect::<Vec<_>>().join("")
}

/// Some(name) when the expression is nothing but a variable reference (possibly parenthesised)
fn bare_var(e: &Expression) -> Option<String> {
  match e {
    Expression::Var(v) => if v.kind.is_none() { Some(ascii_name(&v.name.to_string())) } else { None },
    Expression::Formula(f) => bare_factor(f),
    _ => None,
  }
}
fn bare_factor(f: &Factor) -> Option<String> {
  match f {
    Factor::Expression(e) => bare_var(e),
    Factor::Parenthetical(f) => bare_factor(f),
    Factor::Term(t) => if t.rhs.is_empty() { bare_factor(&t.lhs) } else { None },
    _ => None,
  }
}


/// The variables whose storage the value of the expression may SHARE on the pinned tree (values flow by reference unless an
/// operator computes a fresh one): subscripted reads (x.a, x.1, x[i], x{k}), a variable wrapped in a one-element matrix
/// literal, the elements of tuple / record / set / tuple-struct literals, the scrutinee and arm bodies of a match expression,
/// the arguments of a call.  A top-level bare variable is reported separately ("from").
fn passthrough(e: &Expression, wrapped: bool, out: &mut Vec<String>) {
  match e {
    Expression::Var(v) => if wrapped && v.kind.is_none() { out.push(ascii_name(&v.name.to_string())); },
    Expression::Slice(s) => out.push(ascii_name(&s.name.to_string())),
    Expression::Structure(Structure::Matrix(m)) => {
      if m.rows.len() == 1 && m.rows[0].columns.len() == 1 { passthrough(&m.rows[0].columns[0].element, true, out); }
    }
    Expression::Structure(Structure::Tuple(t)) => for x in t.elements.iter() { passthrough(x, true, out); },
    Expression::Structure(Structure::Record(r)) => for b in r.bindings.iter() { passthrough(&b.value, true, out); },
    Expression::Structure(Structure::Set(st)) => for x in st.elements.iter() { passthrough(x, true, out); },
    Expression::Structure(Structure::TupleStruct(t)) => passthrough(&t.value, true, out),
    Expression::Match(m) => {
      passthrough(&m.source, true, out);
      for a in m.arms.iter() { passthrough(&a.expression, true, out); }
    }
    Expression::FunctionCall(f) => for (_, x) in f.args.iter() { passthrough(x, true, out); },
    Expression::Formula(f) => pass_factor(f, wrapped, out),
    _ => {}
  }
}
fn pass_factor(f: &Factor, wrapped: bool, out: &mut Vec<String>) {
  match f {
    Factor::Expression(e) => passthrough(e, wrapped, out),
    Factor::Parenthetical(f) => pass_factor(f, wrapped, out),
    Factor::Term(t) => if t.rhs.is_empty() { pass_factor(&t.lhs, wrapped, out) },
    _ => {}
  }
}

/// kind, targets, mutable flag, has-subscript, "from" (bare variable on the right-hand side of a define)
fn describe(code: &MechCode) -> (String, Vec<String>, bool, bool, Option<String>) {
  match code {
    MechCode::Statement(Statement::VariableDefine(d)) => {
      let from = bare_var(&d.expression);
      ("Define".into(), vec![ascii_name(&d.var.name.to_string())], d.mutable, d.var.kind.is_some(), from)
    }
    MechCode::Statement(Statement::VariableAssign(a)) => ("Assign".into(), vec![ascii_name(&a.target.name.to_string())], false, a.target.subscript.is_some(), None),
    MechCode::Statement(Statement::OpAssign(a)) => ("OpAssign".into(), vec![ascii_name(&a.target.name.to_string())], false, a.target.subscript.is_some(), None),
    MechCode::Statement(Statement::TupleDestructure(t)) => {
      let from = bare_var(&t.expression);
      ("Destructure".into(), t.vars.iter().map(|v| ascii_name(&v.to_string())).collect(), false, false, from)
    }
    MechCode::Statement(Statement::FsmDeclare(f)) => ("FsmDeclare".into(), vec![ascii_name(&f.fsm.name.to_string())], false, false, None),
    MechCode::Statement(Statement::KindDefine(_)) => ("KindDefine".into(), vec![], false, false, None),
    MechCode::Statement(Statement::EnumDefine(_)) => ("EnumDefine".into(), vec![], false, false, None),
    MechCode::Statement(_) => ("OtherStatement".into(), vec![], false, false, None),
    MechCode::Expression(_) => ("Expression".into(), vec![], false, false, None),
    MechCode::FunctionDefine(_) => ("FunctionDefine".into(), vec![], false, false, None),
    MechCode::FsmSpecification(_) => ("FsmSpecification".into(), vec![], false, false, None),
    MechCode::FsmImplementation(_) => ("FsmImplementation".into(), vec![], false, false, None),
    MechCode::Comment(_) => ("Comment".into(), vec![], false, false, None),
    MechCode::Error(_, _) => ("Error".into(), vec![], false, false, None),
  }
}


/// Expressions that read PART of (or wrap) the variable `n` and evaluate, on the pinned tree, to storage owned by `n`
/// (record fields, tuple elements, table columns, a bracketed or parenthesised variable, an indexed element).
fn sub_sources(n: &str, v: &Value) -> Vec<String> {
  let ident = |s: &str| !s.is_empty() && s.chars().all(|c| c.is_ascii_alphanumeric()) && s.chars().next().map(|c| c.is_ascii_alphabetic()).unwrap_or(false);
  let p = project(v);
  let p = if p.get("t").and_then(|t| t.as_str()) == Some("mref") { p.get("v").cloned().unwrap_or(J::Null) } else { p };
  let mut out = vec![];
  match p.get("t").and_then(|t| t.as_str()) {
    Some("rec") => for f in p["f"].as_array().cloned().unwrap_or_default().iter().take(3) {
      if let Some(name) = f["n"].as_str() { if ident(name) { out.push(format!("{}.{}", n, name)); } }
    },
    Some("tup") => for i in 1..=p["e"].as_array().map(|a| a.len()).unwrap_or(0).min(3) { out.push(format!("{}.{}", n, i)); },
    Some("tbl") => for c in p["cols"].as_array().cloned().unwrap_or_default().iter().take(2) {
      if let Some(name) = c["n"].as_str() { if ident(name) { out.push(format!("{}.{}", n, name)); } }
    },
    Some("mat") => { out.push(format!("[{}]", n)); out.push(format!("{}[1]", n)); out.push(format!("({})", n)); },
    Some("num") | Some("bool") | Some("str") => { out.push(format!("[{}]", n)); out.push(format!("({})", n)); },
    _ => {}
  }
  out
}

fn one_item_program(code: &MechCode) -> Program {
  Program { title: None, body: Body { sections: vec![Section { subtitle: None, elements: vec![SectionElement::MechCode(vec![(code.clone(), None)])] }] } }
}

fn code_items(p: &Program) -> Vec<MechCode> {
  let mut out = vec![];
  for s in p.body.sections.iter() {
    for e in s.elements.iter() {
      if let SectionElement::MechCode(items) = e {
        for (c, _) in items.iter() {
          out.push(c.clone());
        }
      }
    }
  }
  out
}

fn run_item(intrp: &mut Interpreter, code: &MechCode, origin: &str, events: &mut Vec<J>) -> bool {
  let (kind, targets, mutable, sub, from) = describe(code);
  if kind == "Comment" { return true; }
  let prog = one_item_program(code);
  let r = catch_unwind(AssertUnwindSafe(|| intrp.interpret(&prog)));
  let mut rec = Map::new();
  rec.insert("kind".into(), json!(kind));
  rec.insert("targets".into(), json!(targets));
  rec.insert("mutable".into(), json!(mutable));
  rec.insert("sub".into(), json!(sub));
  rec.insert("annotated".into(), json!(sub && kind == "Define"));
  rec.insert("from".into(), json!(from.unwrap_or_else(|| "-".to_string())));
  rec.insert("origin".into(), json!(origin));
  let mut bases: Vec<String> = vec![];
  match code {
    MechCode::Statement(Statement::VariableDefine(d)) if d.var.kind.is_none() => passthrough(&d.expression, false, &mut bases),
    MechCode::Statement(Statement::TupleDestructure(t)) => passthrough(&t.expression, false, &mut bases),
    // `T += r` appends the record r to the table T as a new row: on the pinned tree the row shares r's cells
    MechCode::Statement(Statement::OpAssign(a)) if a.target.subscript.is_none() => {
      let tname = a.target.name.to_string();
      let is_table = {
        let syms = intrp.symbols();
        let syms = syms.borrow();
        let dict = syms.dictionary.borrow();
        syms.symbols.iter().any(|(id, cell)| dict.get(id).map(|x| *x == tname).unwrap_or(false) && {
          let p = project(&cell.borrow());
          let p = if p.get("t").and_then(|t| t.as_str()) == Some("mref") { p.get("v").cloned().unwrap_or(J::Null) } else { p };
          p.get("t").and_then(|t| t.as_str()) == Some("tbl")
        })
      };
      if is_table { passthrough(&a.expression, true, &mut bases); }
    }
    _ => {}
  }
  bases.sort(); bases.dedup();
  rec.insert("bases".into(), json!(bases));
  let text: String = tokens_text(&code.tokens()).chars().filter(|c| c.is_ascii() && !c.is_ascii_control() && *c != '"' && *c != '\\').take(80).collect();
  rec.insert("text".into(), json!(text));
  let mut alive = true;
  match r {
    Ok(Ok(_)) => { rec.insert("ok".into(), json!(true)); rec.insert("class".into(), json!("-")); }
    Ok(Err(e)) => { rec.insert("ok".into(), json!(false)); rec.insert("class".into(), json!(e.kind_name())); }
    Err(_) => { rec.insert("ok".into(), json!(false)); rec.insert("class".into(), json!("PANIC")); alive = false; }
  }
  match catch_unwind(AssertUnwindSafe(|| store_digest(intrp))) {
    Ok((s, m)) => { rec.insert("store".into(), J::Object(s)); rec.insert("mut".into(), json!(m)); }
    Err(_) => { rec.insert("store".into(), json!({})); rec.insert("mut".into(), json!([])); rec.insert("class".into(), json!("STOREPANIC")); alive = false; }
  }
  events.push(J::Object(rec));
  alive
}

pub fn run(req: &J) -> J {
  let text = req.get("text").and_then(|t| t.as_str()).unwrap_or("");
  let probes = req.get("probes").and_then(|b| b.as_bool()).unwrap_or(false);
  let max_names = req.get("max_probe_names").and_then(|b| b.as_u64()).unwrap_or(4) as usize;
  let tree = match crate::session::parse_cached(text) {
    Ok(t) => t,
    Err(e) => return json!({"p": e, "events": []}),
  };
  let mut intrp = Interpreter::new(0);
  let mut events: Vec<J> = vec![];
  let mut alive = true;
  for code in code_items(&tree).iter() {
    if !alive { break; }
    alive = run_item(&mut intrp, code, "program", &mut events);
  }
  let nsteps = req.get("steps").and_then(|b| b.as_u64()).unwrap_or(0);
  if nsteps > 0 && alive {
    // re-evaluation (C19): k single steps in this instance, then a second instance that runs the same items and asks
    // for k steps at once, then a third that only re-runs the items (determinism across instances)
    let push_store = |kind: &str, n: u64, ok: bool, class: &str, intrp: &Interpreter, events: &mut Vec<J>| -> bool {
      let mut rec = Map::new();
      rec.insert("kind".into(), json!(kind)); rec.insert("n".into(), json!(n)); rec.insert("ok".into(), json!(ok));
      rec.insert("class".into(), json!(class)); rec.insert("origin".into(), json!("step")); rec.insert("text".into(), json!(format!("step {}", n)));
      rec.insert("targets".into(), json!([])); rec.insert("mutable".into(), json!(false)); rec.insert("sub".into(), json!(false));
      rec.insert("annotated".into(), json!(false)); rec.insert("from".into(), json!("-"));
      let mut alive = true;
      match catch_unwind(AssertUnwindSafe(|| store_digest(intrp))) {
        Ok((s, m)) => { rec.insert("store".into(), J::Object(s)); rec.insert("mut".into(), json!(m)); }
        Err(_) => { rec.insert("store".into(), json!({})); rec.insert("mut".into(), json!([])); rec.insert("class".into(), json!("STOREPANIC")); alive = false; }
      }
      events.push(J::Object(rec));
      alive
    };
    let do_step = |intrp: &mut Interpreter, n: u64| -> (bool, String) {
      match catch_unwind(AssertUnwindSafe(|| intrp.step(0, n))) {
        Ok(Ok(_)) => (true, "-".to_string()),
        Ok(Err(e)) => (false, e.kind_name().to_string()),
        Err(_) => (false, "PANIC".to_string()),
      }
    };
    let mut ok_all = true;
    for _ in 0..nsteps {
      let (ok, class) = do_step(&mut intrp, 1);
      if class == "PANIC" { push_store("Step", 1, false, "PANIC", &Interpreter::new(0), &mut events); ok_all = false; alive = false; break; }
      if !push_store("Step", 1, ok, &class, &intrp, &mut events) { alive = false; ok_all = false; break; }
    }
    if ok_all {
      let mut scratch: Vec<J> = vec![];
      let mut i2 = Interpreter::new(0);
      let mut a2 = true;
      for code in code_items(&tree).iter() { if !a2 { break; } a2 = run_item(&mut i2, code, "program", &mut scratch); }
      if a2 {
        let (ok, class) = do_step(&mut i2, nsteps);
        if class == "PANIC" { push_store("StepN", nsteps, false, "PANIC", &Interpreter::new(0), &mut events); }
        else { push_store("StepN", nsteps, ok, &class, &i2, &mut events); }
      }
      let mut i3 = Interpreter::new(0);
      let mut a3 = true;
      for code in code_items(&tree).iter() { if !a3 { break; } a3 = run_item(&mut i3, code, "program", &mut scratch); }
      if a3 { push_store("Rerun", 0, true, "-", &i3, &mut events); }
    }
  }
  if probes && alive {
    // generic probe tail, computed from the names the program defined (ASCII identifiers only)
    let (store, _) = store_digest(&intrp);
    let mut names: Vec<String> = store.keys().filter(|n| n.as_str() != "ans" && n.chars().all(|c| c.is_ascii_alphanumeric()) && n.chars().next().map(|c| c.is_ascii_alphabetic()).unwrap_or(false)).cloned().collect();
    names.sort();
    names.truncate(max_names);
    let mut probe_texts: Vec<String> = vec!["zzundefq = 1".to_string(), "zzundefq[1] = 1".to_string(), "zzundefq += 1".to_string(),
      // destructuring with one target more than the tuple has elements: fails and defines nothing
      "(zzq1, zzq2, zzq3) := (1, 2)".to_string(), "zzt := (1, 2)".to_string(), "(zzq4, zzq5, zzq6) := zzt".to_string(),
      "(zzq7, zzq8) := (1, 2, 3)".to_string(),
      // calls of user functions whose body PANICS (unsigned underflow, out-of-range index): the statement fails, nothing changes -
      // in particular the caller's names are all still there (the function's scope must be left on every exit path)
      "zzdec(n<u64>) = r<u64> :=\n  r := n - 1u64.".to_string(), "zzat(m<[f64]>) = r<f64> :=\n  r := m[7].".to_string(),
      "zzpq := zzdec(0u64)".to_string(), "zzat([1 2 3])".to_string(), "zzpw := zzdec(0u64) + 1u64".to_string()];
    for (i, n) in names.iter().enumerate() {
      probe_texts.push(format!("{}", n));
      probe_texts.push(format!("{} := 1", n));
      probe_texts.push(format!("~{} := [1 2]", n));
      probe_texts.push(format!("{} = 1", n));
      probe_texts.push(format!("{}[1] = 1", n));
      probe_texts.push(format!("{} += 1", n));
      // sources of another kind / undefined sources: whether they are accepted is not specified, a failure must change nothing
      probe_texts.push(format!("{} = \"zzs\"", n));
      probe_texts.push(format!("{} = 6u8", n));
      probe_texts.push(format!("{}[1] = \"zzs\"", n));
      probe_texts.push(format!("{} += \"zzs\"", n));
      probe_texts.push(format!("{} = zzundefq + 1", n));
      // op-assignment whose source is another VARIABLE of the same kind and shape (an unaliased copy: n + 0)
      probe_texts.push(format!("zzk{} := {} + 0", i, n));
      probe_texts.push(format!("{} += zzk{}", n, i));
      probe_texts.push(format!("{} -= zzk{}", n, i));
      probe_texts.push(format!("{} *= zzk{}", n, i));
      probe_texts.push(format!("{} /= zzk{}", n, i));
      probe_texts.push(format!("(zzd{}, {}) := (1, 2)", i, n));
      // copies last: on the pinned tree a define-from-variable shares storage with its source
      probe_texts.push(format!("zzcopy{} := {}", i, n));
      probe_texts.push(format!("{} = zzcopy{}", n, i));
    }
    for pt in probe_texts.iter() {
      if !alive { break; }
      if let Ok(pt_tree) = crate::session::parse_cached(pt) {
        let items = code_items(&pt_tree);
        if items.len() != 1 { continue; }
        alive = run_item(&mut intrp, &items[0], "probe", &mut events);
      }
    }
    // sources that read part of a variable: assigning FROM them, and assigning to a variable defined from them, must leave
    // the variable they read unchanged.  Each event carries "base" = the variable the source expression reads.
    let mut subs: Vec<(String, String)> = vec![];
    {
      let syms = intrp.symbols();
      let syms = syms.borrow();
      let dict = syms.dictionary.borrow();
      for n in names.iter() {
        for (id, cell) in syms.symbols.iter() {
          if dict.get(id).map(|x| x == n).unwrap_or(false) {
            for src in sub_sources(n, &cell.borrow()) { subs.push((n.clone(), src)); }
          }
        }
      }
    }
    subs.truncate(12);
    let mut sub_texts: Vec<(String, String)> = vec![];
    for (k, (base, src)) in subs.iter().enumerate() {
      // (a) a mutable variable holding a DIFFERENT value of the same kind (a fresh temporary), then assigned from the source
      sub_texts.push((base.clone(), format!("~zzs{} := {} + {}", k, src, src)));
      sub_texts.push((base.clone(), format!("~zzs{} := !{}", k, src)));
      sub_texts.push((base.clone(), format!("zzs{} = {}", k, src)));
      sub_texts.push((base.clone(), format!("zzs{} += {}", k, src)));
      sub_texts.push((base.clone(), format!("zzs{} = {}", k, src)));
    }
    for (k, (base, src)) in subs.iter().enumerate() {
      // (b) a variable DEFINED from the source, then changed
      sub_texts.push((base.clone(), format!("~zza{} := {}", k, src)));
      sub_texts.push((base.clone(), format!("zza{} = zza{} + zza{}", k, k, k)));
      sub_texts.push((base.clone(), format!("zza{} = !zza{}", k, k)));
      sub_texts.push((base.clone(), format!("zza{}[1] = zza{}[1] + zza{}[1]", k, k, k)));
    }
    for (base, pt) in sub_texts.iter() {
      if !alive { break; }
      if let Ok(pt_tree) = crate::session::parse_cached(pt) {
        let items = code_items(&pt_tree);
        if items.len() != 1 { continue; }
        alive = run_item(&mut intrp, &items[0], "probe", &mut events);
        let _ = base;
      }
    }
  }
  json!({"p": "ok", "events": events, "alive": alive})
}
