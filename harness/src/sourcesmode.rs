// Sources mode: drive the REAL mech::MechSources (src/mechfs.rs) through a session of registry operations over a materialised
// directory and project, after every operation, what a client can ask of it.  A stored tree / html is mapped back to the TEXT of
// the universe it derives from (tree = parse(text), html = format_html(parse(text))), so that the abstract state of
// spec/MechSources.tla can be compared directly.
//
// request : {"mode":"sources","files":{rel:text},"paths":[rel..],"texts":{name:text},"html_paths":[rel..],
//            "ops":[{"o":"add"|"reload"|"write"|"remove"|"code","p":rel,"t":name}]}
// response: {"steps":[{"r":"ok"|"err"|"panic","class":..,"obs":{"src":{rel:name|"none"|"?"},"tree":{..},"html":{..},
//            "contains":{rel:bool},"contains_abs":{rel:bool},"index":{"src":..,"tree":..,"html":..},
//            "code":{name:{"src":..,"tree":..,"html":..}},"n":[sources,trees,html]}}]}
use mech_core::*;
use mech_syntax::formatter::Formatter;
use mech_syntax::parser;
use serde_json::{json, Map, Value as J};
use std::collections::BTreeMap;
use std::panic::{catch_unwind, AssertUnwindSafe};
use std::path::PathBuf;
use std::sync::atomic::{AtomicU64, Ordering};

static COUNTER: AtomicU64 = AtomicU64::new(0);
// the page template: with an empty shim every document renders to the empty string
const SHIM: &str = "<style>{{STYLESHEET}}</style><title>{{TITLE}}</title>{{ABSTRACT}}<hr>{{INTRO}}<hr>{{CONTENT}}<script>{{CODE}}</script>";
const STYLE: &str = "body{}";

struct Universe {
  names: Vec<String>,
  text: BTreeMap<String, String>,  // name -> text
  tree: BTreeMap<String, String>,  // name -> debug print of parse(text)
  html: BTreeMap<String, String>,  // name -> format_html(parse(text), STYLE, SHIM)
}

fn classify_text(u: &Universe, s: &str) -> String {
  for n in u.names.iter() {
    if u.text[n] == s {
      return n.clone();
    }
  }
  for n in u.names.iter() {
    if u.text[n].trim_end() == s.trim_end() {
      return format!("{}~", n); // equal up to trailing blanks / line ends
    }
  }
  "?".to_string()
}

fn classify_src(u: &Universe, c: Option<MechSourceCode>) -> String {
  match c {
    None => "none".to_string(),
    Some(MechSourceCode::String(s)) => classify_text(u, &s),
    Some(MechSourceCode::Html(s)) => classify_text(u, &s),
    Some(MechSourceCode::Tree(_)) => "?tree".to_string(),
    Some(_) => "?other".to_string(),
  }
}

fn classify_tree(u: &Universe, c: Option<MechSourceCode>) -> String {
  match c {
    None => "none".to_string(),
    Some(MechSourceCode::Tree(t)) => {
      if t.title.is_none() && t.body.sections.is_empty() {
        return "empty".to_string();
      }
      let d = format!("{:?}", t);
      for n in u.names.iter() {
        if u.tree[n] == d {
          return n.clone();
        }
      }
      "?".to_string()
    }
    Some(_) => "?other".to_string(),
  }
}

fn classify_html(u: &Universe, c: Option<MechSourceCode>) -> String {
  match c {
    None => "none".to_string(),
    Some(MechSourceCode::Html(h)) => {
      for n in u.names.iter() {
        if u.html[n] == h || u.text[n] == h {
          return n.clone();
        }
      }
      "?".to_string()
    }
    Some(_) => "?other".to_string(),
  }
}

pub fn run(req: &J) -> J {
  let base = std::env::var("MECHVERIF_TMP").map(PathBuf::from).unwrap_or_else(|_| std::env::temp_dir());
  let n = COUNTER.fetch_add(1, Ordering::SeqCst);
  let dir = base.join(format!("mv-src-{}-{}", std::process::id(), n));
  let _ = std::fs::remove_dir_all(&dir);
  if std::fs::create_dir_all(&dir).is_err() {
    return json!({"error":"cannot create temp dir"});
  }
  let canon = dir.canonicalize().unwrap_or(dir.clone());
  // universe of texts
  let mut u = Universe { names: vec![], text: BTreeMap::new(), tree: BTreeMap::new(), html: BTreeMap::new() };
  if let Some(texts) = req.get("texts").and_then(|t| t.as_object()) {
    for (name, t) in texts.iter() {
      let t = t.as_str().unwrap_or("").to_string();
      let parsed = catch_unwind(AssertUnwindSafe(|| parser::parse(&t)));
      let (d, h) = match parsed {
        Ok(Ok(tree)) => {
          let d = format!("{:?}", tree);
          let h = catch_unwind(AssertUnwindSafe(|| Formatter::new().format_html(&tree, STYLE.to_string(), SHIM.to_string())))
            .unwrap_or_else(|_| "<format panic>".to_string());
          (d, h)
        }
        _ => ("<no tree>".to_string(), "<no html>".to_string()),
      };
      u.names.push(name.clone());
      u.text.insert(name.clone(), t);
      u.tree.insert(name.clone(), d);
      u.html.insert(name.clone(), h);
    }
  }
  let text_of = |name: &str| -> String { u.text.get(name).cloned().unwrap_or_default() };
  let write_file = |rel: &str, content: &str| {
    let p = canon.join(rel);
    if let Some(parent) = p.parent() {
      let _ = std::fs::create_dir_all(parent);
    }
    let _ = std::fs::write(&p, content);
  };
  if let Some(files) = req.get("files").and_then(|f| f.as_object()) {
    for (rel, name) in files.iter() {
      write_file(rel, &text_of(name.as_str().unwrap_or("")));
    }
  }
  let paths: Vec<String> = req
    .get("paths")
    .and_then(|p| p.as_array())
    .map(|a| a.iter().filter_map(|x| x.as_str().map(|s| s.to_string())).collect())
    .unwrap_or_default();
  let root = canon.display().to_string();
  let mut sources = mech::MechSources::new();
  sources.set_stylesheet(STYLE);
  sources.set_shim(SHIM);
  let mut steps: Vec<J> = vec![];
  let empty = vec![];
  for op in req.get("ops").and_then(|o| o.as_array()).unwrap_or(&empty).iter() {
    let o = op.get("o").and_then(|x| x.as_str()).unwrap_or("");
    let p = op.get("p").and_then(|x| x.as_str()).unwrap_or("");
    let t = op.get("t").and_then(|x| x.as_str()).unwrap_or("");
    let abs = canon.join(p);
    let mut step = match o {
      "write" => {
        write_file(p, &text_of(t));
        json!({"r":"ok"})
      }
      "remove" => {
        let _ = std::fs::remove_file(&abs);
        json!({"r":"ok"})
      }
      "add" => {
        let r = catch_unwind(AssertUnwindSafe(|| sources.add_source(&abs.display().to_string(), &root)));
        match r {
          Ok(Ok(code)) => json!({"r":"ok","ret":classify_src(&u, Some(code))}),
          Ok(Err(e)) => json!({"r":"err","class":e.kind_name()}),
          Err(_) => json!({"r":"panic"}),
        }
      }
      "reload" => {
        let r = catch_unwind(AssertUnwindSafe(|| sources.reload_source(&abs)));
        match r {
          Ok(Ok(())) => json!({"r":"ok"}),
          Ok(Err(e)) => json!({"r":"err","class":e.kind_name()}),
          Err(_) => json!({"r":"panic"}),
        }
      }
      "code" => {
        let code = MechSourceCode::String(text_of(t));
        let r = catch_unwind(AssertUnwindSafe(|| sources.add_code(&code)));
        match r {
          Ok(Ok(())) => json!({"r":"ok"}),
          Ok(Err(e)) => json!({"r":"err","class":e.kind_name()}),
          Err(_) => json!({"r":"panic"}),
        }
      }
      _ => json!({"r":"unknown-op"}),
    };
    // observation
    let mut osrc = Map::new();
    let mut otree = Map::new();
    let mut ohtml = Map::new();
    let mut ocon = Map::new();
    let mut oabs = Map::new();
    let obs = catch_unwind(AssertUnwindSafe(|| {
      for rel in paths.iter() {
        osrc.insert(rel.clone(), json!(classify_src(&u, sources.get_source(rel))));
        otree.insert(rel.clone(), json!(classify_tree(&u, sources.get_tree(rel))));
        ohtml.insert(rel.clone(), json!(classify_html(&u, sources.get_html(rel))));
        ocon.insert(rel.clone(), json!(sources.contains(rel)));
        oabs.insert(rel.clone(), json!(sources.contains(&canon.join(rel).display().to_string())));
      }
      let index = json!({"src":classify_src(&u, sources.get_source("")),"tree":classify_tree(&u, sources.get_tree("")),
                         "html":classify_html(&u, sources.get_html(""))});
      let mut code = Map::new();
      for name in u.names.iter() {
        let txt = &u.text[name];
        code.insert(name.clone(), json!({"src":classify_src(&u, sources.get_source(txt)),"tree":classify_tree(&u, sources.get_tree(txt)),
                                         "html":classify_html(&u, sources.get_html(txt))}));
      }
      let counts = json!([sources.sources_iter().count(), sources.trees_iter().count(), sources.html_iter().count()]);
      (index, code, counts)
    }));
    match obs {
      Ok((index, code, counts)) => {
        step["obs"] = json!({"src":osrc,"tree":otree,"html":ohtml,"contains":ocon,"contains_abs":oabs,"index":index,"code":code,"n":counts});
      }
      Err(_) => {
        step["obs"] = json!({"panic":true});
      }
    }
    steps.push(step);
  }
  let _ = std::fs::remove_dir_all(&dir);
  json!({"steps":steps})
}
