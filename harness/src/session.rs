// Session mode: run a list of statements one at a time in ONE fresh interpreter and report, after
// every statement, the outcome, the projected result and (optionally) the whole projected store.
use crate::project::{kind_of, project};
use mech_core::*;
use mech_interpreter::*;
use mech_syntax::parser;
use serde_json::{json, Map, Value as J};
use std::cell::RefCell;
use std::collections::HashMap;
use std::panic::{catch_unwind, AssertUnwindSafe};

thread_local! {
  static PARSE_CACHE: RefCell<HashMap<String, Result<Program, String>>> = RefCell::new(HashMap::new());
}

pub fn parse_cached(text: &str) -> Result<Program, String> {
  let hit = PARSE_CACHE.with(|c| c.borrow().get(text).cloned());
  if let Some(h) = hit {
    return h;
  }
  let r = match catch_unwind(AssertUnwindSafe(|| parser::parse(text))) {
    Ok(Ok(t)) => Ok(t),
    Ok(Err(e)) => Err(format!("err:{}", e.kind_name())),
    Err(_) => Err("panic".to_string()),
  };
  PARSE_CACHE.with(|c| {
    let mut c = c.borrow_mut();
    if c.len() > 200_000 {
      c.clear();
    }
    c.insert(text.to_string(), r.clone());
  });
  r
}

/// Variant names of the section elements of a parsed program; for MechCode elements the variant
/// names of the code items are appended ("MechCode:Statement,Expression").
pub fn program_shape(p: &Program) -> Vec<String> {
  let mut out = vec![];
  let j = serde_json::to_value(p).unwrap_or(J::Null);
  if let Some(secs) = j.pointer("/body/sections").and_then(|s| s.as_array()) {
    for s in secs {
      if let Some(sub) = s.get("subtitle") {
        if !sub.is_null() {
          out.push("SectionSubtitle".to_string());
        }
      }
      if let Some(els) = s.get("elements").and_then(|e| e.as_array()) {
        for e in els {
          match e {
            J::String(name) => out.push(name.clone()),
            J::Object(m) => {
              for (k, v) in m.iter() {
                if k == "MechCode" {
                  let mut items = vec![];
                  if let Some(arr) = v.as_array() {
                    for it in arr {
                      // it = [MechCode, Option<Comment>]
                      if let Some(code) = it.get(0) {
                        match code {
                          J::Object(cm) => {
                            for (ck, cv) in cm.iter() {
                              // one level deeper for statements: Statement -> VariableDefine etc.
                              let mut nm = ck.clone();
                              if let J::Object(inner) = cv {
                                if let Some((ik, _)) = inner.iter().next() {
                                  nm = format!("{}.{}", ck, ik);
                                }
                              }
                              items.push(nm);
                            }
                          }
                          J::String(s) => items.push(s.clone()),
                          _ => {}
                        }
                      }
                    }
                  }
                  out.push(format!("MechCode:{}", items.join(",")));
                } else {
                  out.push(k.clone());
                }
              }
            }
            _ => {}
          }
        }
      }
    }
  }
  if p.title.is_some() {
    out.insert(0, "Title".to_string());
  }
  out
}

pub fn project_store(intrp: &Interpreter, filter: Option<&Vec<String>>) -> (J, J) {
  let syms = intrp.symbols();
  let syms = syms.borrow();
  let dict = syms.dictionary.borrow();
  let state = intrp.state.borrow();
  let dict2 = state.dictionary.borrow();
  let mut store = Map::new();
  for (id, cell) in syms.symbols.iter() {
    let name = dict
      .get(id)
      .cloned()
      .or_else(|| dict2.get(id).cloned())
      .unwrap_or_else(|| format!("#{}", id));
    if let Some(f) = filter {
      if !f.contains(&name) {
        continue;
      }
    }
    let v = cell.borrow();
    let mut pj = project(&v);
    store.insert(name, json!({"v":pj,"k":kind_of(&v)}));
  }
  let mut muts: Vec<String> = syms
    .mutable_variables
    .keys()
    .map(|id| {
      dict
        .get(id)
        .cloned()
        .or_else(|| dict2.get(id).cloned())
        .unwrap_or_else(|| format!("#{}", id))
    })
    .collect();
  muts.sort();
  (J::Object(store), json!(muts))
}

fn last_arm(intrp: &Interpreter) -> J {
  let plan = intrp.plan();
  let plan = plan.borrow();
  match plan.last() {
    Some(f) => {
      let s = f.to_string();
      json!(s.lines().next().unwrap_or("").to_string())
    }
    None => J::Null,
  }
}

fn plan_len(intrp: &Interpreter) -> usize {
  intrp.plan().borrow().len()
}

pub fn run(req: &J) -> J {
  let empty = json!({});
  let opts = req.get("opts").unwrap_or(&empty);
  let want_store = opts.get("store").and_then(|b| b.as_bool()).unwrap_or(false);
  let want_trace = opts.get("trace").and_then(|b| b.as_bool()).unwrap_or(false);
  let want_arm = opts.get("arm").and_then(|b| b.as_bool()).unwrap_or(false);
  let want_shape = opts.get("shape").and_then(|b| b.as_bool()).unwrap_or(true);
  let filter: Option<Vec<String>> = opts.get("names").and_then(|n| n.as_array()).map(|a| {
    a.iter().filter_map(|s| s.as_str().map(|s| s.to_string())).collect()
  });
  let subs: Vec<String> = opts
    .get("subs")
    .and_then(|n| n.as_array())
    .map(|a| a.iter().filter_map(|s| s.as_str().map(|s| s.to_string())).collect())
    .unwrap_or_default();
  let mut intrp = Interpreter::new(0);
  if let Some(ms) = opts.get("max_steps").and_then(|m| m.as_u64()) {
    intrp.max_steps = ms as usize;
  }
  if want_trace {
    intrp.set_trace_enabled(true);
    intrp.set_trace_to_stdout(false);
  }
  let mut steps: Vec<J> = vec![];
  let stmts = req.get("stmts").and_then(|s| s.as_array()).cloned().unwrap_or_default();
  for st in stmts.iter() {
    let mut rec = Map::new();
    if want_trace {
      intrp.clear_trace_events();
    }
    match st {
      J::String(text) => match parse_cached(text) {
        Ok(tree) => {
          if want_shape {
            rec.insert("shape".into(), json!(program_shape(&tree)));
          }
          rec.insert("p".into(), json!("ok"));
          let r = catch_unwind(AssertUnwindSafe(|| intrp.interpret(&tree)));
          match r {
            Ok(Ok(v)) => {
              rec.insert("r".into(), json!("ok"));
              rec.insert("v".into(), project(&v));
              rec.insert("k".into(), json!(kind_of(&v)));
            }
            Ok(Err(e)) => {
              rec.insert("r".into(), json!("err"));
              rec.insert("class".into(), json!(e.kind_name()));
              rec.insert("msg".into(), json!(e.kind_message()));
            }
            Err(_) => {
              rec.insert("r".into(), json!("panic"));
            }
          }
        }
        Err(e) => {
          rec.insert("p".into(), json!(e));
          rec.insert("r".into(), json!("noparse"));
        }
      },
      J::Object(o) => {
        let op = o.get("op").and_then(|s| s.as_str()).unwrap_or("");
        let n = o.get("n").and_then(|n| n.as_u64()).unwrap_or(1);
        match op {
          "step" | "step1" => {
            let r = catch_unwind(AssertUnwindSafe(|| {
              if op == "step" {
                intrp.step(0, n)
              } else {
                let mut last = intrp.step(0, 0);
                for _ in 0..n {
                  last = intrp.step(0, 1);
                }
                last
              }
            }));
            match r {
              Ok(Ok(v)) => {
                rec.insert("r".into(), json!("ok"));
                rec.insert("v".into(), project(&v));
                rec.insert("k".into(), json!(kind_of(&v)));
              }
              Ok(Err(e)) => {
                rec.insert("r".into(), json!("err"));
                rec.insert("class".into(), json!(e.kind_name()));
              }
              Err(_) => {
                rec.insert("r".into(), json!("panic"));
                // a panic inside step leaves RefCells borrowed; the interpreter is unusable
                steps.push(J::Object(rec));
                break;
              }
            }
          }
          _ => {
            rec.insert("r".into(), json!("badop"));
          }
        }
      }
      _ => {
        rec.insert("r".into(), json!("badstmt"));
      }
    }
    if want_store {
      let sp = catch_unwind(AssertUnwindSafe(|| project_store(&intrp, filter.as_ref())));
      match sp {
        Ok((s, m)) => {
          rec.insert("store".into(), s);
          rec.insert("mut".into(), m);
        }
        Err(_) => {
          rec.insert("store_panic".into(), json!(true));
        }
      }
    }
    if !subs.is_empty() {
      let mut sm = Map::new();
      let si = intrp.sub_interpreters.borrow();
      for name in subs.iter() {
        let id = hash_str(name);
        if let Some(sub) = si.get(&id) {
          let (s, m) = project_store(sub, None);
          sm.insert(name.clone(), json!({"store":s,"mut":m}));
        }
      }
      rec.insert("subs".into(), J::Object(sm));
      rec.insert("nsubs".into(), json!(si.len()));
    }
    if want_arm {
      rec.insert("arm".into(), last_arm(&intrp));
      rec.insert("planlen".into(), json!(plan_len(&intrp)));
    }
    if want_trace {
      let ev: Vec<J> = intrp.trace_events().iter().map(|e| json!(e.rendered)).collect();
      rec.insert("trace".into(), json!(ev));
    }
    steps.push(J::Object(rec));
  }
  json!({"steps": steps})
}
