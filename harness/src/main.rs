// mechverif — executor that runs REAL mech code for the model-based checks in /verif.
//
// `mechverif exec` reads one JSON request per line on stdin and writes one JSON response per line
// on stdout (strict request/response; a `START <id>` line is written and flushed to stderr before a
// request is processed so that the parent can attribute a crash).  All rendering of abstract cases
// and all comparison against the TLA+ model happens outside (bin/check); this binary only runs
// mech and projects what it observes.
#![allow(warnings)]
#![feature(alloc_error_hook)]
mod project;
mod session;
mod syntaxmode;
mod bytecode;
mod include;
mod stepwise;
mod replmode;
mod sourcesmode;

use serde_json::{json, Value as J};
use std::io::{BufRead, Write};

pub static ALLOC_FAILED: std::sync::atomic::AtomicBool = std::sync::atomic::AtomicBool::new(false);

fn main() {
  // Panics inside mech are data, not noise.
  std::panic::set_hook(Box::new(|_| {}));
  // an allocation that fails (address-space limit of the worker) becomes a catchable panic: data, not a crash
  std::alloc::set_alloc_error_hook(|layout| {
    // remembered apart from the panic: a catch_unwind inside mech (interpret, run_program, compile, step) would otherwise turn an
    // allocation without bound into an ordinary error and hide it (in a real process the failed allocation aborts the host)
    ALLOC_FAILED.store(true, std::sync::atomic::Ordering::SeqCst);
    panic!("verif-alloc-error: {} bytes", layout.size());
  });
  let args: Vec<String> = std::env::args().collect();
  let mode = args.get(1).map(|s| s.as_str()).unwrap_or("exec");
  match mode {
    "exec" => exec_loop(),
    "selftest" => selftest(),
    _ => {
      eprintln!("usage: mechverif exec|selftest");
      std::process::exit(2);
    }
  }
}

fn handle(req: &J) -> J {
  let mode = req.get("mode").and_then(|m| m.as_str()).unwrap_or("session");
  let mut out = match mode {
    "session" => session::run(req),
    "parse" => syntaxmode::run_parse(req),
    "format" => syntaxmode::run_format(req),
    "parseseq" => syntaxmode::run_parse_seq(req),
    "bytecode" => bytecode::run(req),
    "bytes" => bytecode::run_bytes(req),
    "ctx" => bytecode::run_ctx(req),
    "include" => include::run(req),
    "stepwise" => stepwise::run(req),
    "repl" => replmode::run(req),
    "sources" => sourcesmode::run(req),
    _ => json!({"error":"unknown mode"}),
  };
  if let Some(id) = req.get("id") {
    out["id"] = id.clone();
  }
  out
}

fn exec_loop() {
  let stdin = std::io::stdin();
  // mech prints to stdout in places (`:step #i`, `:load`, profiling): responses go to a private duplicate of fd 1 and
  // fd 1 itself is pointed at /dev/null, so that nothing mech prints can corrupt the request/response protocol
  let mut so: std::fs::File = unsafe {
    use std::os::fd::FromRawFd;
    let keep = libc::dup(1);
    let null = libc::open(b"/dev/null\0".as_ptr() as *const libc::c_char, libc::O_WRONLY);
    if keep >= 0 && null >= 0 {
      libc::dup2(null, 1);
      libc::close(null);
      std::fs::File::from_raw_fd(keep)
    } else {
      std::fs::File::from_raw_fd(1)
    }
  };
  for line in stdin.lock().lines() {
    let line = match line {
      Ok(l) => l,
      Err(_) => break,
    };
    if line.trim().is_empty() {
      continue;
    }
    let req: J = match serde_json::from_str(&line) {
      Ok(j) => j,
      Err(e) => {
        writeln!(so, "{}", json!({"error": format!("bad request: {}", e)})).ok();
        so.flush().ok();
        continue;
      }
    };
    {
      let se = std::io::stderr();
      let mut se = se.lock();
      writeln!(se, "START {}", req.get("id").cloned().unwrap_or(J::Null)).ok();
      se.flush().ok();
    }
    let resp = match std::panic::catch_unwind(std::panic::AssertUnwindSafe(|| handle(&req))) {
      Ok(r) => r,
      Err(p) => {
        let msg = p
          .downcast_ref::<&'static str>()
          .map(|s| s.to_string())
          .or_else(|| p.downcast_ref::<String>().cloned())
          .unwrap_or_else(|| "non-string panic".to_string());
        json!({"id": req.get("id").cloned().unwrap_or(J::Null), "harness_panic": msg})
      }
    };
    writeln!(so, "{}", resp).ok();
    so.flush().ok();
  }
}

fn selftest() {
  // Round-trips a handful of programs through every mode the checks rely on; prints one JSON line.
  let reqs = vec![
    json!({"id":"s1","mode":"session","stmts":["x := [1 2; 3 4]","x[2,1]","~y := 5u8","y = 6u8","z := 1/2"],"opts":{"store":true}}),
    json!({"id":"s2","mode":"parse","text":"x := 1 + 2 * 3"}),
  ];
  for r in reqs {
    println!("{}", handle(&r));
  }
}
