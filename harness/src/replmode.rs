// REPL mode: drive the REAL `mech::MechRepl` the way src/bin/mech.rs does - a line that starts with ':' goes through
// `parse_repl_command`, any other line is `ReplCommand::Code` - and report after every line the outcome class, the
// projected store of the ACTIVE interpreter and the headers of its plan (first line of every plan function).
// Commands with effects outside the process image (:quit, :cd, :save, :clc, :ls, :docs, :load) are refused by the
// harness ("r":"refused") unless the request sets opts.allow_load (then :load is let through).
use crate::project::{kind_of, project};
use crate::session::project_store;
use mech::*;
use mech_core::*;
use mech_syntax::*;
use serde_json::{json, Map, Value as J};
use std::panic::{catch_unwind, AssertUnwindSafe};

fn plan_headers(intrp: &Interpreter) -> Vec<String> {
  let plan = intrp.plan();
  let plan = plan.borrow();
  plan.iter().map(|f| f.to_string().lines().next().unwrap_or("").trim().trim_end_matches('{').trim().to_string()).collect()
}

pub fn run(req: &J) -> J {
  let empty = json!({});
  let opts = req.get("opts").unwrap_or(&empty);
  let want_plan = opts.get("plan").and_then(|b| b.as_bool()).unwrap_or(false);
  let allow_load = opts.get("allow_load").and_then(|b| b.as_bool()).unwrap_or(false);
  let filter: Option<Vec<String>> = opts.get("names").and_then(|n| n.as_array()).map(|a| {
    a.iter().filter_map(|s| s.as_str().map(|s| s.to_string())).collect()
  });
  // parse_only: the lines go through `parse_repl_command` only (no command is executed): the recognised command with its
  // arguments (Debug print) or "unrecognized" / "parse-panic"
  if opts.get("parse_only").and_then(|b| b.as_bool()).unwrap_or(false) {
    let lines = req.get("lines").and_then(|s| s.as_array()).cloned().unwrap_or_default();
    let mut outs: Vec<J> = vec![];
    for ln in lines.iter() {
      let text = ln.as_str().unwrap_or("").to_string();
      let o = match catch_unwind(AssertUnwindSafe(|| parse_repl_command(text.as_str()))) {
        Ok(Ok((_, c))) => json!({"r":"ok","cmd":format!("{:?}", c)}),
        Ok(Err(_)) => json!({"r":"unrecognized"}),
        Err(_) => json!({"r":"parse-panic"}),
      };
      outs.push(o);
    }
    return json!({"outs": outs});
  }
  let mut repl = MechRepl::new();
  let mut steps: Vec<J> = vec![];
  let lines = req.get("lines").and_then(|s| s.as_array()).cloned().unwrap_or_default();
  for ln in lines.iter() {
    let mut rec = Map::new();
    let text = ln.as_str().unwrap_or("").to_string();
    let cmd: Option<ReplCommand> = if text.starts_with(':') {
      match catch_unwind(AssertUnwindSafe(|| parse_repl_command(text.as_str()))) {
        Ok(Ok((_, c))) => Some(c),
        Ok(Err(_)) => {
          rec.insert("r".into(), json!("unrecognized"));
          None
        }
        Err(_) => {
          rec.insert("r".into(), json!("parse-panic"));
          None
        }
      }
    } else {
      Some(ReplCommand::Code(vec![("repl".to_string(), MechSourceCode::String(text.clone()))]))
    };
    if let Some(c) = cmd {
      let name = format!("{:?}", c);
      let variant = name.split(|ch: char| !ch.is_alphanumeric()).next().unwrap_or("").to_string();
      rec.insert("cmd".into(), json!(variant.clone()));
      let refused = match variant.as_str() {
        "Quit" | "Cd" | "Save" | "Clc" | "Ls" | "Docs" => true,
        "Load" => !allow_load,
        _ => false,
      };
      if refused {
        rec.insert("r".into(), json!("refused"));
      } else {
        if let ReplCommand::Step(id, n) = &c {
          rec.insert("step_id".into(), json!(id));
          rec.insert("step_n".into(), json!(n));
        }
        match catch_unwind(AssertUnwindSafe(|| repl.execute_repl_command(c))) {
          Ok(Ok(out)) => {
            rec.insert("r".into(), json!("ok"));
            if variant == "Whos" || variant == "Profile" {
              rec.insert("out".into(), json!(out));
            }
          }
          Ok(Err(e)) => {
            rec.insert("r".into(), json!("err"));
            rec.insert("class".into(), json!(e.kind_name()));
          }
          Err(_) => {
            rec.insert("r".into(), json!("panic"));
            steps.push(J::Object(rec));
            break;
          }
        }
      }
    }
    rec.insert("ninterp".into(), json!(repl.interpreters.len()));
    if let Some(intrp) = repl.interpreters.get(&repl.active) {
      match catch_unwind(AssertUnwindSafe(|| project_store(intrp, filter.as_ref()))) {
        Ok((s, m)) => {
          rec.insert("store".into(), s);
          rec.insert("mut".into(), m);
        }
        Err(_) => {
          rec.insert("store_panic".into(), json!(true));
        }
      }
      if want_plan {
        match catch_unwind(AssertUnwindSafe(|| plan_headers(intrp))) {
          Ok(h) => {
            rec.insert("plan".into(), json!(h));
          }
          Err(_) => {}
        }
      }
    } else {
      rec.insert("no_active".into(), json!(true));
    }
    steps.push(J::Object(rec));
  }
  json!({"steps": steps})
}
