// Projection of mech_core::Value into the abstract JSON domain used by the checks.
//
// Deep copy: every cell is read at projection time, so later mutation of shared
// Rc cells cannot alter a recorded snapshot.
//
// Numbers are emitted loss-free: integers as decimal strings, floats as the hex
// form of their IEEE bit pattern (the Python side converts both to exact rationals),
// rationals as numerator/denominator strings, complex as two f64 bit patterns.
use mech_core::matrix::Matrix;
use mech_core::*;
use serde_json::{json, Value as J};

pub trait Elem {
  fn proj(&self) -> J;
  fn kind_name() -> &'static str;
}

macro_rules! int_elem {
  ($($t:ty => $n:expr),*) => { $(
    impl Elem for $t {
      fn proj(&self) -> J { json!({"t":"num","k":$n,"v":self.to_string()}) }
      fn kind_name() -> &'static str { $n }
    }
  )* };
}
int_elem!(u8=>"u8",u16=>"u16",u32=>"u32",u64=>"u64",u128=>"u128",i8=>"i8",i16=>"i16",i32=>"i32",i64=>"i64",i128=>"i128");

impl Elem for usize {
  fn proj(&self) -> J { json!({"t":"num","k":"ix","v":self.to_string()}) }
  fn kind_name() -> &'static str { "ix" }
}
impl Elem for f64 {
  fn proj(&self) -> J { json!({"t":"num","k":"f64","bits":format!("{:016x}", self.to_bits())}) }
  fn kind_name() -> &'static str { "f64" }
}
impl Elem for f32 {
  fn proj(&self) -> J { json!({"t":"num","k":"f32","bits":format!("{:08x}", self.to_bits())}) }
  fn kind_name() -> &'static str { "f32" }
}
impl Elem for bool {
  fn proj(&self) -> J { json!({"t":"bool","v":*self}) }
  fn kind_name() -> &'static str { "bool" }
}
impl Elem for String {
  fn proj(&self) -> J { json!({"t":"str","s":self}) }
  fn kind_name() -> &'static str { "string" }
}
impl Elem for R64 {
  fn proj(&self) -> J { json!({"t":"num","k":"r64","n":self.0.numer().to_string(),"d":self.0.denom().to_string()}) }
  fn kind_name() -> &'static str { "r64" }
}
impl Elem for C64 {
  fn proj(&self) -> J {
    json!({"t":"cplx","k":"c64","re":format!("{:016x}", self.0.re.to_bits()),"im":format!("{:016x}", self.0.im.to_bits())})
  }
  fn kind_name() -> &'static str { "c64" }
}
impl Elem for Value {
  fn proj(&self) -> J { project(self) }
  fn kind_name() -> &'static str { "*" }
}

fn storage_name<T>(m: &Matrix<T>) -> &'static str {
  match m {
    Matrix::DVector(_) => "DVector",
    Matrix::RowDVector(_) => "RowDVector",
    Matrix::DMatrix(_) => "DMatrix",
    #[allow(unreachable_patterns)]
    _ => "Fixed",
  }
}

fn proj_matrix<T: Elem + Clone + std::fmt::Debug + PartialEq + 'static>(m: &Matrix<T>) -> J
where
  T: Clone,
{
  let shape = m.shape();
  let data: Vec<J> = m.as_vec().iter().map(|e| e.proj()).collect();
  json!({"t":"mat","k":T::kind_name(),"r":shape[0],"c":shape[1],"st":storage_name(m),"d":data})
}

pub fn project(v: &Value) -> J {
  match v {
    Value::U8(x) => x.borrow().proj(),
    Value::U16(x) => x.borrow().proj(),
    Value::U32(x) => x.borrow().proj(),
    Value::U64(x) => x.borrow().proj(),
    Value::U128(x) => x.borrow().proj(),
    Value::I8(x) => x.borrow().proj(),
    Value::I16(x) => x.borrow().proj(),
    Value::I32(x) => x.borrow().proj(),
    Value::I64(x) => x.borrow().proj(),
    Value::I128(x) => x.borrow().proj(),
    Value::F32(x) => x.borrow().proj(),
    Value::F64(x) => x.borrow().proj(),
    Value::String(x) => x.borrow().proj(),
    Value::Bool(x) => x.borrow().proj(),
    Value::R64(x) => x.borrow().proj(),
    Value::C64(x) => x.borrow().proj(),
    Value::Atom(x) => {
      let a = x.borrow();
      json!({"t":"atom","s":a.name(),"id":a.id().to_string()})
    }
    Value::MatrixIndex(m) => proj_matrix(m),
    Value::MatrixBool(m) => proj_matrix(m),
    Value::MatrixU8(m) => proj_matrix(m),
    Value::MatrixU16(m) => proj_matrix(m),
    Value::MatrixU32(m) => proj_matrix(m),
    Value::MatrixU64(m) => proj_matrix(m),
    Value::MatrixU128(m) => proj_matrix(m),
    Value::MatrixI8(m) => proj_matrix(m),
    Value::MatrixI16(m) => proj_matrix(m),
    Value::MatrixI32(m) => proj_matrix(m),
    Value::MatrixI64(m) => proj_matrix(m),
    Value::MatrixI128(m) => proj_matrix(m),
    Value::MatrixF32(m) => proj_matrix(m),
    Value::MatrixF64(m) => proj_matrix(m),
    Value::MatrixString(m) => proj_matrix(m),
    Value::MatrixR64(m) => proj_matrix(m),
    Value::MatrixC64(m) => proj_matrix(m),
    Value::MatrixValue(m) => proj_matrix(m),
    Value::Set(s) => {
      let s = s.borrow();
      let e: Vec<J> = s.set.iter().map(project).collect();
      json!({"t":"set","k":s.kind.to_string(),"n":s.num_elements,"e":e})
    }
    Value::Map(m) => {
      let m = m.borrow();
      let e: Vec<J> = m.map.iter().map(|(k, v)| json!([project(k), project(v)])).collect();
      json!({"t":"map","kk":m.key_kind.to_string(),"vk":m.value_kind.to_string(),"n":m.num_elements,"e":e})
    }
    Value::Record(r) => {
      let r = r.borrow();
      let mut f: Vec<J> = vec![];
      for (i, (id, val)) in r.data.iter().enumerate() {
        let name = r.field_names.get(id).cloned().unwrap_or_else(|| format!("#{}", id));
        let kind = r.kinds.get(i).map(|k| k.to_string()).unwrap_or_default();
        f.push(json!({"n":name,"k":kind,"v":project(val)}));
      }
      json!({"t":"rec","cols":r.cols,"f":f})
    }
    Value::Table(t) => {
      let t = t.borrow();
      let mut cols: Vec<J> = vec![];
      for (id, (kind, col)) in t.data.iter() {
        let name = t.col_names.get(id).cloned().unwrap_or_else(|| format!("#{}", id));
        let shape = col.shape();
        let data: Vec<J> = col.as_vec().iter().map(project).collect();
        cols.push(json!({"n":name,"k":kind.to_string(),"r":shape[0],"c":shape[1],"d":data}));
      }
      json!({"t":"tbl","rows":t.rows,"ncols":t.cols,"cols":cols})
    }
    Value::Tuple(t) => {
      let t = t.borrow();
      let e: Vec<J> = t.elements.iter().map(|b| project(b)).collect();
      json!({"t":"tup","e":e})
    }
    Value::Enum(e) => {
      let e = e.borrow();
      let vs: Vec<J> = e
        .variants
        .iter()
        .map(|(id, p)| {
          let nm = e.names.borrow().get(id).cloned().unwrap_or_else(|| id.to_string());
          json!({"n":nm,"p":p.as_ref().map(project)})
        })
        .collect();
      json!({"t":"enum","n":e.name(),"v":vs})
    }
    Value::Id(x) => json!({"t":"id","v":x.to_string()}),
    Value::Index(x) => json!({"t":"num","k":"ix","v":x.borrow().to_string()}),
    Value::MutableReference(r) => {
      let inner = project(&r.borrow());
      json!({"t":"mref","v":inner})
    }
    Value::Typed(inner, kind) => json!({"t":"typed","k":kind.to_string(),"v":project(inner)}),
    Value::Kind(k) => json!({"t":"kind","k":k.to_string()}),
    Value::IndexAll => json!({"t":"all"}),
    Value::EmptyKind(k) => json!({"t":"empty","k":k.to_string()}),
    Value::Empty => json!({"t":"empty"}),
    #[allow(unreachable_patterns)]
    _ => json!({"t":"other","dbg":format!("{:?}", v)}),
  }
}

/// Kind string of a value as Mech reports it.
pub fn kind_of(v: &Value) -> String {
  v.kind().to_string()
}
